// Unit scanindex: src/scanindex.rs -- ScanIndex::from_reader: segmentation of pbulk-index output into one record
// per PKGNAME= line, whole-read failure (C16, C17).  The serde Deserialize impl (per-field mapping) is outside the
// verifier's reach: `index_of` is uninterpreted and the impl is pinned (watch).
//@ unit scanindex
#![allow(unused_imports)]
use vstd::prelude::*;
use vstd::utf8::*;
use vstd::string::*;
use std::io;
use std::io::BufRead;
use std::collections::HashMap;
use vstd::std_specs::iter::IteratorSpec;
verus! {

//@ include lib/std_str.rs

#[verifier::external_type_specification]
#[verifier::external_body]
pub struct ExIoError(io::Error);
#[verifier::external_trait_specification]
pub trait ExRead { type ExternalTraitSpecificationFor: std::io::Read; }
#[verifier::external_trait_specification]
pub trait ExBufRead: std::io::Read { type ExternalTraitSpecificationFor: std::io::BufRead; }

/// one parsed record (opaque: its fields are produced by the serde Deserialize impl, which is not verified)
#[verifier::external_body]
pub struct ScanIndex { _p: () }
pub struct ScanV { pub id: int }
impl ScanIndex { pub uninterp spec fn view(&self) -> ScanV; }
/// the record built from one block of 'KEY=VALUE' lines (None: the block is rejected - no PKGNAME, bad ALL_DEPENDS item, bad PKG_LOCATION)
pub uninterp spec fn index_of(block: Seq<char>) -> Option<ScanV>;

/// the lines the reader yields: Ok(text) or an I/O error
pub type WLine = core::result::Result<Seq<char>, ()>;
pub uninterp spec fn reader_lines<R>(r: R) -> Seq<WLine>;
#[verifier::external_body]
fn shim_reader_lines<R: BufRead>(reader: R) -> (r: Vec<io::Result<String>>)
    ensures r@.len() == reader_lines(reader).len(),
        forall|i: int| 0 <= i < r@.len() ==> (match reader_lines(reader)[i] { Ok(t) => (#[trigger] r@[i]) is Ok && r@[i]->Ok_0@ == t, Err(_) => r@[i] is Err })
{ reader.lines().collect() }
#[verifier::external_body]
fn shim_trim<'a>(s: &'a String) -> (r: &'a str) ensures r@ == trimmed(s@) { s.trim() }
pub open spec fn PKGNAME_EQ() -> Seq<char> { seq!['P', 'K', 'G', 'N', 'A', 'M', 'E', '='] }

pub struct ScanState { pub buffer: Seq<char>, pub out: Seq<ScanV> }
/// statement of C16 as a fold over the reader's lines: blank lines are skipped; a trimmed line starting with "PKGNAME="
/// closes the block collected so far (its record is built ONLY from that block: the buffer restarts empty); an I/O error
/// or a rejected block fails the whole read
pub open spec fn scan_fold(lines: Seq<WLine>, i: int, st: ScanState) -> core::result::Result<ScanState, ()> decreases lines.len() - i {
    if i < 0 || i >= lines.len() { Ok(st) } else {
        match lines[i] {
            Err(_) => Err(()),
            Ok(raw) => {
                let t = trimmed(raw);
                if t.len() == 0 { scan_fold(lines, i + 1, st) }
                else if PKGNAME_EQ().is_prefix_of(t) && st.buffer.len() > 0 {
                    match index_of(st.buffer) {
                        None => Err(()),
                        Some(v) => scan_fold(lines, i + 1, ScanState { buffer: t + seq!['\n'], out: st.out.push(v) }),
                    }
                } else { scan_fold(lines, i + 1, ScanState { buffer: st.buffer + t + seq!['\n'], out: st.out }) }
            }
        }
    }
}
pub open spec fn scan_spec(lines: Seq<WLine>) -> core::result::Result<Seq<ScanV>, ()> {
    match scan_fold(lines, 0, ScanState { buffer: Seq::<char>::empty(), out: Seq::<ScanV>::empty() }) {
        Err(_) => Err(()),
        Ok(st) => if st.buffer.len() == 0 { Ok(st.out) } else { match index_of(st.buffer) { None => Err(()), Some(v) => Ok(st.out.push(v)) } },
    }
}
pub open spec fn views(v: Seq<ScanIndex>) -> Seq<ScanV> { Seq::new(v.len(), |i: int| v[i].view()) }

impl ScanIndex {
    #[verifier::external_body]
    fn str_to_index(input: &str) -> (r: io::Result<ScanIndex>)
        ensures (match index_of(input@) { Some(v) => r is Ok && r->Ok_0.view() == v, None => r is Err })
    { unimplemented!() }

//@ extract src/scanindex.rs : impl ScanIndex fn from_reader
//@ rewrite D6.reader_lines D6.str_trim D6.line_starts_with_lit D17.continue_to_else
    pub fn from_reader<R: BufRead>(reader: R) -> (r: io::Result<Vec<ScanIndex>>)
        ensures (match scan_spec(reader_lines(reader)) { Ok(vs) => r is Ok && views(r->Ok_0@) == vs, Err(_) => r is Err })
    {
        let mut indexes = vec![];
        let mut buffer = String::new();
        let ghost lines = reader_lines(reader);
        let ghost st0 = ScanState { buffer: Seq::<char>::empty(), out: Seq::<ScanV>::empty() };
        proof { lemma_pkgname_lit(); assert(views(indexes@) =~= Seq::<ScanV>::empty()); }
        for line in it: shim_reader_lines(reader)
            invariant
                lines == reader_lines(reader), st0 == (ScanState { buffer: Seq::<char>::empty(), out: Seq::<ScanV>::empty() }),
                it.snapshot@.remaining().len() == lines.len(),
                forall|i: int| 0 <= i < lines.len() ==> (match lines[i] { Ok(t) => (#[trigger] it.snapshot@.remaining()[i]) is Ok && it.snapshot@.remaining()[i]->Ok_0@ == t, Err(_) => it.snapshot@.remaining()[i] is Err }),
                scan_fold(lines, it.index@ as int, ScanState { buffer: buffer@, out: views(indexes@) }) == scan_fold(lines, 0, st0),
        {
            let ghost idx = it.index@ as int;
            let ghost b0 = buffer@;
            let ghost o0 = views(indexes@);
            proof { lemma_pkgname_lit(); }
            let line = line?;
            let line = line.trim();
            if line.is_empty() {
                continue;
            }
            if line.starts_with("PKGNAME=") && !buffer.is_empty() {
                indexes.push(Self::str_to_index(&buffer)?);
                proof { assert(views(indexes@) =~= o0.push(index_of(b0)->Some_0)); }
                buffer.clear();
            }
            buffer.push_str(line);
            buffer.push('\n');
            proof {
                assert(buffer@ =~= (if PKGNAME_EQ().is_prefix_of(line@) && b0.len() > 0 { line@ + seq!['\n'] } else { b0 + line@ + seq!['\n'] }));
            }
        }
        if !buffer.is_empty() {
            indexes.push(Self::str_to_index(&buffer)?);
            proof { assert(views(indexes@) =~= scan_fold(lines, 0, st0)->Ok_0.out.push(index_of(buffer@)->Some_0)); }
        }

        Ok(indexes)
    }
//@ end
}

// ---- KeyValue::visit_str: the KEY=VALUE block parser behind the Deserialize impl
pub axiom fn axiom_string_key_model() ensures vstd::std_specs::hash::obeys_key_model::<String>();
pub open spec fn has_key(m: Map<String, String>, k: Seq<char>) -> bool { exists|s: String| #[trigger] m.contains_key(s) && s@ == k }
pub open spec fn key_of(m: Map<String, String>, k: Seq<char>) -> String { choose|s: String| #[trigger] m.contains_key(s) && s@ == k }
/// lookup in a HashMap<String,String> by the characters of the key
pub open spec fn sget(m: Map<String, String>, k: Seq<char>) -> Option<Seq<char>> {
    if has_key(m, k) { Some(m[key_of(m, k)]@) } else { None }
}
pub proof fn lemma_sget_key(m: Map<String, String>, s: String)
    requires m.contains_key(s)
    ensures has_key(m, s@), key_of(m, s@) == s, sget(m, s@) == Some(m[s]@)
{ axiom_string_ext(key_of(m, s@), s); }
pub proof fn lemma_sget_insert(m: Map<String, String>, a: String, b: String, k: Seq<char>)
    ensures sget(m.insert(a, b), k) == (if k == a@ { Some(b@) } else { sget(m, k) })
{
    let m2 = m.insert(a, b);
    if k == a@ { lemma_sget_key(m2, a); }
    else if has_key(m, k) { let s0 = key_of(m, k); axiom_string_ext(s0, a); lemma_sget_key(m2, s0); }
    else if has_key(m2, k) { let s2 = key_of(m2, k); axiom_string_ext(s2, a); assert(m.contains_key(s2)); }
}
/// statement of C16 for one block: the value of key k is the trimmed text after the FIRST '=' of the LAST line whose trimmed
/// text before that '=' is k; lines without '=' are ignored; an absent key has no value
pub open spec fn kv_upto(lines: Seq<Seq<char>>, n: int, k: Seq<char>) -> Option<Seq<char>> decreases n {
    if n <= 0 || n > lines.len() { None } else {
        let l = lines[n - 1];
        let i = first_index_of(l, '=');
        if i >= 0 && trimmed(l.take(i)) == k { Some(trimmed(l.skip(i + 1))) } else { kv_upto(lines, n - 1, k) }
    }
}
pub open spec fn kv_spec(block: Seq<char>, k: Seq<char>) -> Option<Seq<char>> { kv_upto(lines_spec(block), lines_spec(block).len() as int, k) }
// shim D6.split_once_char
#[verifier::external_body]
fn shim_split_once_char<'a>(s: &'a str, c: char) -> (r: Option<(&'a str, &'a str)>)
    ensures (match r {
        Some((a, b)) => first_index_of(s@, c) >= 0 && a@ == s@.take(first_index_of(s@, c)) && b@ == s@.skip(first_index_of(s@, c) + 1),
        None => first_index_of(s@, c) < 0,
    })
{ s.split_once(c) }
/// stands for serde's error type parameter E (never constructed by visit_str)
pub struct DeErr { pub _p: () }
pub struct KeyValue;
impl KeyValue {
//@ extract src/scanindex.rs : impl Visitor for KeyValue fn visit_str
//@ rewrite D9.serde_visit_str_sig D6.str_lines D6.split_once_char D6.trim_to_string
    fn visit_str(self, value: &str) -> (r: Result<HashMap<String, String>, DeErr>)
        ensures r is Ok, forall|k: Seq<char>| sget(r->Ok_0@, k) == kv_spec(value@, k)
    {
        let mut map = HashMap::new();
        proof { axiom_string_key_model(); }
        let ghost ls = lines_spec(value@);
        for line in it: value.lines()
            invariant
                ls == lines_spec(value@),
                it.snapshot@.remaining().len() == ls.len(),
                forall|i: int| 0 <= i < ls.len() ==> (#[trigger] it.snapshot@.remaining()[i])@ == ls[i],
                forall|k: Seq<char>| sget(map@, k) == kv_upto(ls, it.index@ as int, k),
                vstd::std_specs::hash::obeys_key_model::<String>(),
        {
            let ghost m0 = map@;
            let ghost idx = it.index@ as int;
            if let Some((key, value)) = line.split_once('=') {
                map.insert(key.trim().to_string(), value.trim().to_string());
                proof {
                    let i = first_index_of(line@, '=');
                    let a = str_of(trimmed(line@.take(i)));
                    let b = str_of(trimmed(line@.skip(i + 1)));
                    assert(map@ == m0.insert(a, b));
                    assert forall|k: Seq<char>| sget(map@, k) == kv_upto(ls, idx + 1, k) by { lemma_sget_insert(m0, a, b, k); }
                }
            }
        }
        Ok(map)
    }
//@ end
}

pub proof fn lemma_pkgname_lit() ensures "PKGNAME="@ == PKGNAME_EQ() { reveal_strlit("PKGNAME="); assert("PKGNAME="@ =~= PKGNAME_EQ()); }

} // verus!
// Outside the verifier's reach (generic over serde's Deserializer/Visitor traits, macro_rules-generated field accessors, external
// crate): pinned.  Any change makes the unit undecided and the bounded stand-in of C16 (replay search against the field-level
// oracle) runs instead.
//@ watch src/scanindex.rs : impl Deserialize for ScanIndex fn deserialize
    fn deserialize<D>(deserializer: D) -> Result<Self, D::Error>
    where
        D: Deserializer<'de>,
    {
        let map: HashMap<String, String> =
            deserializer.deserialize_str(KeyValue)?;

        /* A mandatory single-type value */
        macro_rules! var_reqd {
            ($type:expr, $key:expr) => {
                $type(map.get($key).ok_or(de::Error::missing_field($key))?)
            };
        }

        /* An optional single-type value */
        macro_rules! var_opt {
            ($type:expr, $key:expr) => {
                map.get($key).map($type)
            };
        }

        /* An optional single-type value where the type returns Result */
        macro_rules! var_opt_result {
            ($type:expr, $key:expr) => {
                map.get($key)
                    .map(|v| $type(v.as_str()))
                    .transpose()
                    .map_err(de::Error::custom)?
            };
        }

        /* A vec where the type always succeeds */
        macro_rules! var_vec {
            ($type:expr, $key:expr) => {
                map.get($key).map_or(vec![], |v| {
                    v.split_whitespace().map($type).collect()
                })
            };
        }

        /*
         * A vec where the type returns a Result.  It's fine if there is no
         * entry, but if there is then it must be parsed correctly.
         */
        macro_rules! var_vec_result {
            ($type:expr, $key:expr) => {
                map.get($key).map_or_else(
                    || Ok(vec![]),
                    |v| {
                        v.split_whitespace()
                            .map($type)
                            .map(|result| result.map_err(de::Error::custom))
                            .collect()
                    },
                )?
            };
        }

        let all_depends: Vec<Depend> =
            var_vec_result!(Depend::new, "ALL_DEPENDS");
        let pkgname = var_reqd!(PkgName::new, "PKGNAME");
        /* No idea why this isn't PKGPATH */
        let pkg_location = var_opt_result!(PkgPath::new, "PKG_LOCATION");
        let pkg_skip_reason = var_opt!(String::from, "PKG_SKIP_REASON");
        let pkg_fail_reason = var_opt!(String::from, "PKG_FAIL_REASON");
        let no_bin_on_ftp = var_opt!(String::from, "NO_BIN_ON_FTP");
        let restricted = var_opt!(String::from, "RESTRICTED");
        let categories = var_opt!(String::from, "CATEGORIES");
        let maintainer = var_opt!(String::from, "MAINTAINER");
        let use_destdir = var_opt!(String::from, "USE_DESTDIR");
        let bootstrap_pkg = var_opt!(String::from, "BOOTSTRAP_PKG");
        let usergroup_phase = var_opt!(String::from, "USERGROUP_PHASE");
        let scan_depends = var_vec!(PathBuf::from, "SCAN_DEPENDS");
        let pbulk_weight = var_opt!(String::from, "PBULK_WEIGHT");
        let multi_version = var_vec!(String::from, "MULTI_VERSION");

        /* DEPENDS is filled out by whatever parses this struct */
        let depends = vec![];

        Ok(ScanIndex {
            pkgname,
            pkg_location,
            all_depends,
            pkg_skip_reason,
            pkg_fail_reason,
            no_bin_on_ftp,
            restricted,
            categories,
            maintainer,
            use_destdir,
            bootstrap_pkg,
            usergroup_phase,
            scan_depends,
            pbulk_weight,
            multi_version,
            depends,
        })
    }
//@ end
//@ watch src/scanindex.rs : impl ScanIndex fn str_to_index
    fn str_to_index(input: &str) -> io::Result<ScanIndex> {
        let index = StrDeserializer::<serde::de::value::Error>::new(input);
        let index = ScanIndex::deserialize(index).map_err(|e| {
            std::io::Error::new(
                std::io::ErrorKind::InvalidData,
                format!("Failed to parse: {}", e),
            )
        })?;
        Ok(index)
    }
//@ end

fn main() {}
