// Unit scanindex: src/scanindex.rs -- ScanIndex::from_reader: segmentation of pbulk-index output into one record
// per PKGNAME= line, whole-read failure; KeyValue::visit_str; impl Deserialize for ScanIndex (the per-field mapping) and
// str_to_index (C16, C17).  serde itself is a unit-local model: a Deserializer is a value with an uninterpreted "text it hands to
// visit_str"; the constructors of the field types (PkgName::new, PkgPath::new, Depend::new) are functions of their argument
// (their full contracts are proved in units pkgname / pkgpath).
//@ unit scanindex
#![allow(unused_imports)]
use vstd::prelude::*;
use vstd::utf8::*;
use vstd::string::*;
use std::io;
use std::fmt;
use std::io::BufRead;
use std::collections::HashMap;
use std::ffi::{OsStr, OsString};
use std::os::unix::ffi::{OsStrExt, OsStringExt};
use std::path::PathBuf;
use std::string::FromUtf8Error;
use vstd::std_specs::iter::IteratorSpec;
verus! {

//@ include lib/std_str.rs
//@ include lib/std_os.rs
//@ include lib/std_fmt.rs

#[verifier::external_type_specification]
#[verifier::external_body]
pub struct ExIoError(io::Error);
#[verifier::external_type_specification]
#[verifier::external_body]
pub struct ExFromUtf8Error(FromUtf8Error);
#[verifier::external_trait_specification]
pub trait ExRead { type ExternalTraitSpecificationFor: std::io::Read; }
#[verifier::external_trait_specification]
pub trait ExBufRead: std::io::Read { type ExternalTraitSpecificationFor: std::io::BufRead; }

// ---- the field types: opaque here.  Each constructor is a function of its argument's characters (uninterpreted *_of; what it
// accepts and what it builds is proved in units pkgname / pkgpath against the real bodies)
#[verifier::external_body]
pub struct PkgName { _p: () }
#[verifier::external_body]
pub struct PkgPath { _p: () }
#[verifier::external_body]
pub struct PkgPathError { _p: () }
#[verifier::external_body]
pub struct Depend { _p: () }
#[verifier::external_body]
pub struct DependError { _p: () }
pub uninterp spec fn pkgname_of(s: Seq<char>) -> PkgName;
pub uninterp spec fn pkgpath_of(s: Seq<char>) -> Option<PkgPath>;
pub uninterp spec fn depend_of(s: Seq<char>) -> Option<Depend>;
impl PkgName {
    #[verifier::external_body]
    pub fn new(pkgname: &str) -> (r: PkgName) ensures r == pkgname_of(pkgname@) { unimplemented!() }
}
impl PkgPath {
    #[verifier::external_body]
    pub fn new(path: &str) -> (r: Result<PkgPath, PkgPathError>)
        ensures (match pkgpath_of(path@) { Some(p) => r is Ok && r->Ok_0 == p, None => r is Err })
    { unimplemented!() }
}
impl Depend {
    #[verifier::external_body]
    pub fn new(s: &str) -> (r: Result<Depend, DependError>)
        ensures (match depend_of(s@) { Some(d) => r is Ok && r->Ok_0 == d, None => r is Err })
    { unimplemented!() }
}

//@ extract src/scanindex.rs : struct ScanIndex
pub struct ScanIndex {
    pub pkgname: PkgName,
    pub pkg_location: Option<PkgPath>,
    pub all_depends: Vec<Depend>,
    pub pkg_skip_reason: Option<String>,
    pub pkg_fail_reason: Option<String>,
    pub no_bin_on_ftp: Option<String>,
    pub restricted: Option<String>,
    pub categories: Option<String>,
    pub maintainer: Option<String>,
    pub use_destdir: Option<String>,
    pub bootstrap_pkg: Option<String>,
    pub usergroup_phase: Option<String>,
    pub scan_depends: Vec<PathBuf>,
    pub pbulk_weight: Option<String>,
    pub multi_version: Vec<String>,
    pub depends: Vec<PkgName>,
}
//@ end
/// a record as mathematical values
pub struct ScanV {
    pub pkgname: PkgName,
    pub pkg_location: Option<PkgPath>,
    pub all_depends: Seq<Depend>,
    pub pkg_skip_reason: Option<Seq<char>>,
    pub pkg_fail_reason: Option<Seq<char>>,
    pub no_bin_on_ftp: Option<Seq<char>>,
    pub restricted: Option<Seq<char>>,
    pub categories: Option<Seq<char>>,
    pub maintainer: Option<Seq<char>>,
    pub use_destdir: Option<Seq<char>>,
    pub bootstrap_pkg: Option<Seq<char>>,
    pub usergroup_phase: Option<Seq<char>>,
    pub scan_depends: Seq<Seq<u8>>,
    pub pbulk_weight: Option<Seq<char>>,
    pub multi_version: Seq<Seq<char>>,
    pub depends: Seq<PkgName>,
}
pub open spec fn ostr(o: Option<String>) -> Option<Seq<char>> { match o { Some(s) => Some(s@), None => None } }
pub open spec fn vstrs(v: Seq<String>) -> Seq<Seq<char>> { Seq::new(v.len(), |i: int| v[i]@) }
pub open spec fn vpaths(v: Seq<PathBuf>) -> Seq<Seq<u8>> { Seq::new(v.len(), |i: int| pbb(&v[i])) }
impl ScanIndex {
    pub open spec fn view(&self) -> ScanV {
        ScanV {
            pkgname: self.pkgname, pkg_location: self.pkg_location, all_depends: self.all_depends@,
            pkg_skip_reason: ostr(self.pkg_skip_reason), pkg_fail_reason: ostr(self.pkg_fail_reason), no_bin_on_ftp: ostr(self.no_bin_on_ftp),
            restricted: ostr(self.restricted), categories: ostr(self.categories), maintainer: ostr(self.maintainer),
            use_destdir: ostr(self.use_destdir), bootstrap_pkg: ostr(self.bootstrap_pkg), usergroup_phase: ostr(self.usergroup_phase),
            scan_depends: vpaths(self.scan_depends@), pbulk_weight: ostr(self.pbulk_weight), multi_version: vstrs(self.multi_version@),
            depends: self.depends@,
        }
    }
}
/// str::split_whitespace(): the maximal runs of non-whitespace characters, in order (uninterpreted)
pub uninterp spec fn words(s: Seq<char>) -> Seq<Seq<char>>;
/// the dependencies built from the first n items (None: one of them is rejected by Depend::new)
pub open spec fn deps_upto(ws: Seq<Seq<char>>, n: int) -> Option<Seq<Depend>> decreases n {
    if n <= 0 || n > ws.len() { Some(Seq::<Depend>::empty()) } else {
        match deps_upto(ws, n - 1) {
            None => None,
            Some(s) => match depend_of(ws[n - 1]) { None => None, Some(d) => Some(s.push(d)) },
        }
    }
}
pub open spec fn words_utf8(ws: Seq<Seq<char>>) -> Seq<Seq<u8>> { Seq::new(ws.len(), |i: int| encode_utf8(ws[i])) }
/// statement of C16 for one block of 'KEY=VALUE' lines (kv_spec below: trimmed value of the LAST line for the key): scalar fields
/// hold that value, list fields its whitespace-separated items in order, absent keys are None / empty; None - the block is
/// rejected - when PKGNAME is absent, PKG_LOCATION is not a valid package path or an ALL_DEPENDS item is not a valid dependency
pub open spec fn index_of(block: Seq<char>) -> Option<ScanV> {
    let name = kv_spec(block, "PKGNAME"@);
    let loc: Option<Option<PkgPath>> = match kv_spec(block, "PKG_LOCATION"@) {
        None => Some(None),
        Some(v) => match pkgpath_of(v) { None => None, Some(p) => Some(Some(p)) },
    };
    let deps: Option<Seq<Depend>> = match kv_spec(block, "ALL_DEPENDS"@) {
        None => Some(Seq::<Depend>::empty()),
        Some(v) => deps_upto(words(v), words(v).len() as int),
    };
    if name is None || loc is None || deps is None { None } else {
        Some(ScanV {
            pkgname: pkgname_of(name->Some_0),
            pkg_location: loc->Some_0,
            all_depends: deps->Some_0,
            pkg_skip_reason: kv_spec(block, "PKG_SKIP_REASON"@),
            pkg_fail_reason: kv_spec(block, "PKG_FAIL_REASON"@),
            no_bin_on_ftp: kv_spec(block, "NO_BIN_ON_FTP"@),
            restricted: kv_spec(block, "RESTRICTED"@),
            categories: kv_spec(block, "CATEGORIES"@),
            maintainer: kv_spec(block, "MAINTAINER"@),
            use_destdir: kv_spec(block, "USE_DESTDIR"@),
            bootstrap_pkg: kv_spec(block, "BOOTSTRAP_PKG"@),
            usergroup_phase: kv_spec(block, "USERGROUP_PHASE"@),
            scan_depends: match kv_spec(block, "SCAN_DEPENDS"@) { None => Seq::<Seq<u8>>::empty(), Some(v) => words_utf8(words(v)) },
            pbulk_weight: kv_spec(block, "PBULK_WEIGHT"@),
            multi_version: match kv_spec(block, "MULTI_VERSION"@) { None => Seq::<Seq<char>>::empty(), Some(v) => words(v) },
            depends: Seq::<PkgName>::empty(),
        })
    }
}

/// the lines the reader yields: Ok(text) or an I/O error
pub type WLine = core::result::Result<Seq<char>, ()>;
pub uninterp spec fn reader_lines<R>(r: R) -> Seq<WLine>;
#[verifier::external_body]
fn shim_reader_lines<R: BufRead>(reader: R) -> (r: Vec<io::Result<String>>)
    ensures r@.len() == reader_lines(reader).len(),
        forall|i: int| 0 <= i < r@.len() ==> (match reader_lines(reader)[i] { Ok(t) => (#[trigger] r@[i]) is Ok && r@[i]->Ok_0@ == t, Err(_) => r@[i] is Err })
{ reader.lines().collect() }
#[verifier::external_body]
fn shim_trim<'a>(s: &'a String) -> (r: &'a str) ensures r@ == trimmed(s@) { s.trim() }
pub open spec fn PKGNAME_EQ() -> Seq<char> { seq!['P', 'K', 'G', 'N', 'A', 'M', 'E', '='] }

pub struct ScanState { pub buffer: Seq<char>, pub out: Seq<ScanV> }
/// statement of C16 as a fold over the reader's lines: blank lines are skipped; a trimmed line starting with "PKGNAME="
/// closes the block collected so far (its record is built ONLY from that block: the buffer restarts empty); an I/O error
/// or a rejected block fails the whole read
pub open spec fn scan_fold(lines: Seq<WLine>, i: int, st: ScanState) -> core::result::Result<ScanState, ()> decreases lines.len() - i {
    if i < 0 || i >= lines.len() { Ok(st) } else {
        match lines[i] {
            Err(_) => Err(()),
            Ok(raw) => {
                let t = trimmed(raw);
                if t.len() == 0 { scan_fold(lines, i + 1, st) }
                else if PKGNAME_EQ().is_prefix_of(t) && st.buffer.len() > 0 {
                    match index_of(st.buffer) {
                        None => Err(()),
                        Some(v) => scan_fold(lines, i + 1, ScanState { buffer: t + seq!['\n'], out: st.out.push(v) }),
                    }
                } else { scan_fold(lines, i + 1, ScanState { buffer: st.buffer + t + seq!['\n'], out: st.out }) }
            }
        }
    }
}
pub open spec fn scan_spec(lines: Seq<WLine>) -> core::result::Result<Seq<ScanV>, ()> {
    match scan_fold(lines, 0, ScanState { buffer: Seq::<char>::empty(), out: Seq::<ScanV>::empty() }) {
        Err(_) => Err(()),
        Ok(st) => if st.buffer.len() == 0 { Ok(st.out) } else { match index_of(st.buffer) { None => Err(()), Some(v) => Ok(st.out.push(v)) } },
    }
}
pub open spec fn views(v: Seq<ScanIndex>) -> Seq<ScanV> { Seq::new(v.len(), |i: int| v[i].view()) }

impl ScanIndex {
//@ extract src/scanindex.rs : impl ScanIndex fn from_reader
//@ rewrite D6.reader_lines D6.str_trim D6.line_starts_with_lit D17.continue_to_else
    pub fn from_reader<R: BufRead>(reader: R) -> (r: io::Result<Vec<ScanIndex>>)
        ensures (match scan_spec(reader_lines(reader)) { Ok(vs) => r is Ok && views(r->Ok_0@) == vs, Err(_) => r is Err })
    {
        let mut indexes = vec![];
        let mut buffer = String::new();
        let ghost lines = reader_lines(reader);
        let ghost st0 = ScanState { buffer: Seq::<char>::empty(), out: Seq::<ScanV>::empty() };
        proof { lemma_pkgname_lit(); assert(views(indexes@) =~= Seq::<ScanV>::empty()); }
        for line in it: shim_reader_lines(reader)
            invariant
                lines == reader_lines(reader), st0 == (ScanState { buffer: Seq::<char>::empty(), out: Seq::<ScanV>::empty() }),
                it.snapshot@.remaining().len() == lines.len(),
                forall|i: int| 0 <= i < lines.len() ==> (match lines[i] { Ok(t) => (#[trigger] it.snapshot@.remaining()[i]) is Ok && it.snapshot@.remaining()[i]->Ok_0@ == t, Err(_) => it.snapshot@.remaining()[i] is Err }),
                scan_fold(lines, it.index@ as int, ScanState { buffer: buffer@, out: views(indexes@) }) == scan_fold(lines, 0, st0),
        {
            let ghost idx = it.index@ as int;
            let ghost b0 = buffer@;
            let ghost o0 = views(indexes@);
            proof { lemma_pkgname_lit(); }
            let line = line?;
            let line = line.trim();
            if line.is_empty() {
                continue;
            }
            if line.starts_with("PKGNAME=") && !buffer.is_empty() {
                indexes.push(Self::str_to_index(&buffer)?);
                proof { assert(views(indexes@) =~= o0.push(index_of(b0)->Some_0)); }
                buffer.clear();
            }
            buffer.push_str(line);
            buffer.push('\n');
            proof {
                assert(buffer@ =~= (if PKGNAME_EQ().is_prefix_of(line@) && b0.len() > 0 { line@ + seq!['\n'] } else { b0 + line@ + seq!['\n'] }));
            }
        }
        if !buffer.is_empty() {
            indexes.push(Self::str_to_index(&buffer)?);
            proof { assert(views(indexes@) =~= scan_fold(lines, 0, st0)->Ok_0.out.push(index_of(buffer@)->Some_0)); }
        }

        Ok(indexes)
    }
//@ end
}

// ---- KeyValue::visit_str: the KEY=VALUE block parser behind the Deserialize impl
pub axiom fn axiom_string_key_model() ensures vstd::std_specs::hash::obeys_key_model::<String>();
pub open spec fn has_key(m: Map<String, String>, k: Seq<char>) -> bool { exists|s: String| #[trigger] m.contains_key(s) && s@ == k }
pub open spec fn key_of(m: Map<String, String>, k: Seq<char>) -> String { choose|s: String| #[trigger] m.contains_key(s) && s@ == k }
/// lookup in a HashMap<String,String> by the characters of the key
pub open spec fn sget(m: Map<String, String>, k: Seq<char>) -> Option<Seq<char>> {
    if has_key(m, k) { Some(m[key_of(m, k)]@) } else { None }
}
pub proof fn lemma_sget_key(m: Map<String, String>, s: String)
    requires m.contains_key(s)
    ensures has_key(m, s@), key_of(m, s@) == s, sget(m, s@) == Some(m[s]@)
{ axiom_string_ext(key_of(m, s@), s); }
pub proof fn lemma_sget_insert(m: Map<String, String>, a: String, b: String, k: Seq<char>)
    ensures sget(m.insert(a, b), k) == (if k == a@ { Some(b@) } else { sget(m, k) })
{
    let m2 = m.insert(a, b);
    if k == a@ { lemma_sget_key(m2, a); }
    else if has_key(m, k) { let s0 = key_of(m, k); axiom_string_ext(s0, a); lemma_sget_key(m2, s0); }
    else if has_key(m2, k) { let s2 = key_of(m2, k); axiom_string_ext(s2, a); assert(m.contains_key(s2)); }
}
/// statement of C16 for one block: the value of key k is the trimmed text after the FIRST '=' of the LAST line whose trimmed
/// text before that '=' is k; lines without '=' are ignored; an absent key has no value
pub open spec fn kv_upto(lines: Seq<Seq<char>>, n: int, k: Seq<char>) -> Option<Seq<char>> decreases n {
    if n <= 0 || n > lines.len() { None } else {
        let l = lines[n - 1];
        let i = first_index_of(l, '=');
        if i >= 0 && trimmed(l.take(i)) == k { Some(trimmed(l.skip(i + 1))) } else { kv_upto(lines, n - 1, k) }
    }
}
pub open spec fn kv_spec(block: Seq<char>, k: Seq<char>) -> Option<Seq<char>> { kv_upto(lines_spec(block), lines_spec(block).len() as int, k) }
// shim D6.split_once_char
#[verifier::external_body]
fn shim_split_once_char<'a>(s: &'a str, c: char) -> (r: Option<(&'a str, &'a str)>)
    ensures (match r {
        Some((a, b)) => first_index_of(s@, c) >= 0 && a@ == s@.take(first_index_of(s@, c)) && b@ == s@.skip(first_index_of(s@, c) + 1),
        None => first_index_of(s@, c) < 0,
    })
{ s.split_once(c) }
/// stands for serde's error type parameter E (never constructed by visit_str)
pub struct DeErr { pub _p: () }
pub struct KeyValue;
impl KeyValue {
//@ extract src/scanindex.rs : impl Visitor for KeyValue fn expecting
//@ rewrite D8.formatter_write_str
    fn expecting(&self, formatter: &mut fmt::Formatter) -> (r: fmt::Result)
        ensures r is Ok ==> fout(final(formatter)) == fout(old(formatter)) + "A stream of the format KEY=VALUE"@
    {
        formatter.write_str("A stream of the format KEY=VALUE")
    }
//@ end
//@ extract src/scanindex.rs : impl Visitor for KeyValue fn visit_str
//@ rewrite D9.serde_visit_str_sig D6.str_lines D6.split_once_char D6.trim_to_string
    fn visit_str(self, value: &str) -> (r: Result<HashMap<String, String>, DeErr>)
        ensures r is Ok, forall|k: Seq<char>| sget(r->Ok_0@, k) == kv_spec(value@, k)
    {
        let mut map = HashMap::new();
        proof { axiom_string_key_model(); }
        let ghost ls = lines_spec(value@);
        for line in it: value.lines()
            invariant
                ls == lines_spec(value@),
                it.snapshot@.remaining().len() == ls.len(),
                forall|i: int| 0 <= i < ls.len() ==> (#[trigger] it.snapshot@.remaining()[i])@ == ls[i],
                forall|k: Seq<char>| sget(map@, k) == kv_upto(ls, it.index@ as int, k),
                vstd::std_specs::hash::obeys_key_model::<String>(),
        {
            let ghost m0 = map@;
            let ghost idx = it.index@ as int;
            if let Some((key, value)) = line.split_once('=') {
                map.insert(key.trim().to_string(), value.trim().to_string());
                proof {
                    let i = first_index_of(line@, '=');
                    let a = str_of(trimmed(line@.take(i)));
                    let b = str_of(trimmed(line@.skip(i + 1)));
                    assert(map@ == m0.insert(a, b));
                    assert forall|k: Seq<char>| sget(map@, k) == kv_upto(ls, idx + 1, k) by { lemma_sget_insert(m0, a, b, k); }
                }
            }
        }
        Ok(map)
    }
//@ end
}

pub proof fn lemma_pkgname_lit() ensures "PKGNAME="@ == PKGNAME_EQ() { reveal_strlit("PKGNAME="); assert("PKGNAME="@ =~= PKGNAME_EQ()); }

// ---- serde, as far as this file uses it (serde's own traits cannot be imported into single-file Verus)
/// stands for serde::de::Error
pub trait DeError: Sized {}
/// stands for serde::Deserializer<'de>; de_text: the string a deserializer hands to Visitor::visit_str when asked for a str
/// (None: it reports an error instead)
pub trait Deserializer<'de>: Sized { type Error: DeError; }
pub uninterp spec fn de_text<D>(d: D) -> Option<Seq<char>>;
/// stands for serde::de::value::StrDeserializer<'_, serde::de::value::Error>
#[verifier::external_body]
pub struct StrDe { _p: () }
#[verifier::external_body]
pub struct ValueErr { _p: () }
impl DeError for ValueErr {}
impl<'de> Deserializer<'de> for StrDe { type Error = ValueErr; }
// shim D9.str_deserializer_new
#[verifier::external_body]
fn shim_str_deserializer(input: &str) -> (r: StrDe) ensures de_text(r) == Some(input@) { unimplemented!() }
// shim D9.deserialize_str_kv: deserializer.deserialize_str(KeyValue) - visit_str (proved above) on the deserializer's text
#[verifier::external_body]
fn shim_deserialize_kv<'de, D: Deserializer<'de>>(d: D) -> (r: Result<HashMap<String, String>, D::Error>)
    ensures (match de_text(d) { Some(t) => r is Ok && (forall|k: Seq<char>| sget(r->Ok_0@, k) == kv_spec(t, k)), None => r is Err })
{ unimplemented!() }
// shim: HashMap<String,String>::get(key) as Option<&str>
#[verifier::external_body]
fn shim_get<'a>(m: &'a HashMap<String, String>, k: &str) -> (r: Option<&'a str>)
    ensures (match sget(m@, k@) { Some(v) => r is Some && r->Some_0@ == v, None => r is None })
{ m.get(k).map(|v| v.as_str()) }
// shim D9.map_get_reqd: map.get(key).ok_or(de::Error::missing_field(name))
#[verifier::external_body]
fn shim_get_reqd<'a, E: DeError>(m: &'a HashMap<String, String>, k: &str, field: &'static str) -> (r: Result<&'a str, E>)
    ensures (match sget(m@, k@) { Some(v) => r is Ok && r->Ok_0@ == v, None => r is Err })
{ unimplemented!() }
// shim D9.map_get_string: map.get(key).map(String::from)
#[verifier::external_body]
fn shim_get_string(m: &HashMap<String, String>, k: &str) -> (r: Option<String>)
    ensures ostr(r) == sget(m@, k@)
{ m.get(k).map(String::from) }
// shim: de::Error::custom(e)
#[verifier::external_body]
fn shim_de_custom<E: DeError, T>(e: T) -> (r: E) { unimplemented!() }
// shim: v.split_whitespace().collect()
#[verifier::external_body]
fn shim_words<'a>(v: &'a str) -> (r: Vec<&'a str>)
    ensures r@.len() == words(v@).len(), forall|i: int| 0 <= i < r@.len() ==> (#[trigger] r@[i])@ == words(v@)[i]
{ v.split_whitespace().collect() }
// shim D9.map_get_words_strings: v.split_whitespace().map(String::from).collect()
#[verifier::external_body]
fn shim_words_strings(v: &str) -> (r: Vec<String>)
    ensures vstrs(r@) == words(v@)
{ v.split_whitespace().map(String::from).collect() }
// shim D9.map_get_words_paths: v.split_whitespace().map(PathBuf::from).collect()
#[verifier::external_body]
fn shim_words_paths(v: &str) -> (r: Vec<PathBuf>)
    ensures vpaths(r@) == words_utf8(words(v@))
{ v.split_whitespace().map(PathBuf::from).collect() }
// shim D9.deserialize_map_err_io: io::Error::new(InvalidData, format!("Failed to parse: {}", e))
#[verifier::external_body]
fn shim_invalid_data<T>(e: T) -> (r: io::Error) { unimplemented!() }

impl ScanIndex {
//@ extract src/scanindex.rs : impl Deserialize for ScanIndex fn deserialize
//@ rewrite D7.expand_macros D9.serde_deserialize_sig D9.deserialize_str_kv D9.map_get_reqd D9.map_get_pkgpath D9.map_get_string D9.map_get_words_strings D9.map_get_words_paths D9.map_get_words_depends
    fn deserialize<'de, D>(deserializer: D) -> (r: Result<Self, D::Error>)
    where
        D: Deserializer<'de>,
        ensures (match de_text(deserializer) {
            None => r is Err,
            Some(t) => match index_of(t) { Some(v) => r is Ok && r->Ok_0.view() == v, None => r is Err },
        })
    {
        let ghost t = de_text(deserializer)->Some_0;
        let map: HashMap<String, String> =
            shim_deserialize_kv(deserializer)?;

        /* A mandatory single-type value */
        macro_rules! var_reqd {
            ($type:expr, $key:expr) => {
                $type(map.get($key).ok_or(de::Error::missing_field($key))?)
            };
        }

        /* An optional single-type value */
        macro_rules! var_opt {
            ($type:expr, $key:expr) => {
                map.get($key).map($type)
            };
        }

        /* An optional single-type value where the type returns Result */
        macro_rules! var_opt_result {
            ($type:expr, $key:expr) => {
                map.get($key)
                    .map(|v| $type(v.as_str()))
                    .transpose()
                    .map_err(de::Error::custom)?
            };
        }

        /* A vec where the type always succeeds */
        macro_rules! var_vec {
            ($type:expr, $key:expr) => {
                map.get($key).map_or(vec![], |v| {
                    v.split_whitespace().map($type).collect()
                })
            };
        }

        /*
         * A vec where the type returns a Result.  It's fine if there is no
         * entry, but if there is then it must be parsed correctly.
         */
        macro_rules! var_vec_result {
            ($type:expr, $key:expr) => {
                map.get($key).map_or_else(
                    || Ok(vec![]),
                    |v| {
                        v.split_whitespace()
                            .map($type)
                            .map(|result| result.map_err(de::Error::custom))
                            .collect()
                    },
                )?
            };
        }

        let all_depends: Vec<Depend> =
            ( match shim_get ( & map , "ALL_DEPENDS" ) { None => Vec :: new ( ) , Some ( v ) => { let __ws = shim_words ( v ) ; let mut __out = Vec :: new ( ) ; let mut __i : usize = 0 ;
            while __i < __ws . len ( )
                invariant
                    __i <= __ws@.len(), __ws@.len() == words(v@).len(),
                    forall|i: int| 0 <= i < __ws@.len() ==> (#[trigger] __ws@[i])@ == words(v@)[i],
                    deps_upto(words(v@), __i as int) == Some(__out@),
                decreases __ws@.len() - __i
            { match Depend :: new ( __ws [ __i ] ) { Ok ( __d ) => { __out . push ( __d ) ; } Err ( __e ) => {
                proof { lemma_deps_fail(words(v@), __i as int + 1, words(v@).len() as int); }
                return Err ( shim_de_custom ( __e ) ) ; } } __i += 1 ; } __out } } );
        let pkgname = PkgName :: new ( shim_get_reqd :: < D :: Error > ( & map , "PKGNAME" , "PKGNAME" ) ? );
        /* No idea why this isn't PKGPATH */
        let pkg_location = ( match shim_get ( & map , "PKG_LOCATION" ) { None => None , Some ( v ) => match PkgPath :: new ( v ) { Ok ( __p ) => Some ( __p ) , Err ( __e ) => { return Err ( shim_de_custom ( __e ) ) ; } } } );
        let pkg_skip_reason = shim_get_string ( & map , "PKG_SKIP_REASON" );
        let pkg_fail_reason = shim_get_string ( & map , "PKG_FAIL_REASON" );
        let no_bin_on_ftp = shim_get_string ( & map , "NO_BIN_ON_FTP" );
        let restricted = shim_get_string ( & map , "RESTRICTED" );
        let categories = shim_get_string ( & map , "CATEGORIES" );
        let maintainer = shim_get_string ( & map , "MAINTAINER" );
        let use_destdir = shim_get_string ( & map , "USE_DESTDIR" );
        let bootstrap_pkg = shim_get_string ( & map , "BOOTSTRAP_PKG" );
        let usergroup_phase = shim_get_string ( & map , "USERGROUP_PHASE" );
        let scan_depends = ( match shim_get ( & map , "SCAN_DEPENDS" ) { None => Vec :: new ( ) , Some ( v ) => shim_words_paths ( v ) } );
        let pbulk_weight = shim_get_string ( & map , "PBULK_WEIGHT" );
        let multi_version = ( match shim_get ( & map , "MULTI_VERSION" ) { None => Vec :: new ( ) , Some ( v ) => shim_words_strings ( v ) } );

        /* DEPENDS is filled out by whatever parses this struct */
        let depends = vec![];

        proof {
            assert(all_depends@ =~= (match kv_spec(t, "ALL_DEPENDS"@) { None => Seq::<Depend>::empty(), Some(v) => deps_upto(words(v), words(v).len() as int)->Some_0 }));
            assert(vpaths(scan_depends@) =~= (match kv_spec(t, "SCAN_DEPENDS"@) { None => Seq::<Seq<u8>>::empty(), Some(v) => words_utf8(words(v)) }));
            assert(vstrs(multi_version@) =~= (match kv_spec(t, "MULTI_VERSION"@) { None => Seq::<Seq<char>>::empty(), Some(v) => words(v) }));
            assert(depends@ =~= Seq::<PkgName>::empty());
        }
        Ok(ScanIndex {
            pkgname,
            pkg_location,
            all_depends,
            pkg_skip_reason,
            pkg_fail_reason,
            no_bin_on_ftp,
            restricted,
            categories,
            maintainer,
            use_destdir,
            bootstrap_pkg,
            usergroup_phase,
            scan_depends,
            pbulk_weight,
            multi_version,
            depends,
        })
    }
//@ end

//@ extract src/scanindex.rs : impl ScanIndex fn str_to_index
//@ rewrite D9.str_deserializer_new D9.deserialize_map_err_io
    fn str_to_index(input: &str) -> (r: io::Result<ScanIndex>)
        ensures (match index_of(input@) { Some(v) => r is Ok && r->Ok_0.view() == v, None => r is Err })
    {
        let index = shim_str_deserializer ( input );
        let index = ( match ScanIndex :: deserialize ( index ) { Ok ( __v ) => __v , Err ( __e ) => { return Err ( shim_invalid_data ( __e ) ) ; } } );
        Ok(index)
    }
//@ end
}
/// a rejected item rejects every longer prefix
pub proof fn lemma_deps_fail(ws: Seq<Seq<char>>, n: int, m: int)
    requires 1 <= n <= m <= ws.len(), deps_upto(ws, n) is None
    ensures deps_upto(ws, m) is None
    decreases m - n
{
    if n < m { lemma_deps_fail(ws, n, m - 1); }
}

} // verus!
fn main() {}
