// Unit distinfo: src/distinfo.rs (+ Digest name tables of src/digest.rs) -- C10 C11 C12 C17
//@ unit distinfo
#![allow(unused_imports)]
use vstd::prelude::*;
use vstd::utf8::*;
use vstd::string::*;
use std::ffi::{OsStr, OsString};
use std::os::unix::ffi::{OsStrExt, OsStringExt};
use std::path::{Path, PathBuf};
use std::string::FromUtf8Error;
use vstd::std_specs::iter::IteratorSpec;
verus! {

//@ include lib/std_str.rs
//@ include lib/std_os.rs
//@ include lib/std_bytes.rs

#[verifier::external_type_specification]
#[verifier::external_body]
pub struct ExFromUtf8Error(FromUtf8Error);
#[verifier::external_type_specification]
#[verifier::external_body]
pub struct ExIoError(std::io::Error);

// ---------------- src/digest.rs: names ----------------
//@ extract src/digest.rs : enum Digest
#[derive(Clone, Copy, Debug, Eq, Hash, PartialEq)]
pub enum Digest {
    BLAKE2s,
    MD5,
    RMD160,
    SHA1,
    SHA256,
    SHA512,
}
//@ end
//@ extract src/digest.rs : type DigestResult
pub type DigestResult<T> = std::result::Result<T, DigestError>;
//@ end
//@ extract src/digest.rs : enum DigestError
pub enum DigestError {
    Io(std::io::Error),
    Unsupported(String),
}
//@ end

/// Unicode lower-casing (str::to_lowercase): uninterpreted, known to agree with ASCII lower-casing on ASCII text
pub uninterp spec fn ulower(cs: Seq<char>) -> Seq<char>;
pub axiom fn axiom_ulower_ascii(cs: Seq<char>)
    requires is_ascii_chars(cs)
    ensures ulower(cs) == lower_seq(cs);
#[verifier::external_body]
fn shim_to_lowercase(s: &str) -> (r: String)
    ensures r@ == ulower(s@)
{ s.to_lowercase() }

/// the algorithm named by a (case-insensitive) name
pub open spec fn digest_of_name(n: Seq<char>) -> Option<Digest> {
    let l = ulower(n);
    if l == "blake2s"@ { Some(Digest::BLAKE2s) } else if l == "md5"@ { Some(Digest::MD5) } else if l == "rmd160"@ { Some(Digest::RMD160) }
    else if l == "sha1"@ { Some(Digest::SHA1) } else if l == "sha256"@ { Some(Digest::SHA256) } else if l == "sha512"@ { Some(Digest::SHA512) }
    else { None }
}
impl Digest {
//@ extract src/digest.rs : impl FromStr for Digest fn from_str
//@ rewrite D6.str_to_lowercase
    fn from_str(s: &str) -> (r: DigestResult<Self>)
        ensures (match digest_of_name(s@) { Some(d) => r == Ok::<Digest, DigestError>(d), None => r is Err })
    {
        proof {
            assert forall|t: &str| (t == "blake2s") == (#[trigger] t@ == "blake2s"@) by { axiom_str_ext(t, "blake2s"); }
            assert forall|t: &str| (t == "md5") == (#[trigger] t@ == "md5"@) by { axiom_str_ext(t, "md5"); }
            assert forall|t: &str| (t == "rmd160") == (#[trigger] t@ == "rmd160"@) by { axiom_str_ext(t, "rmd160"); }
            assert forall|t: &str| (t == "sha1") == (#[trigger] t@ == "sha1"@) by { axiom_str_ext(t, "sha1"); }
            assert forall|t: &str| (t == "sha256") == (#[trigger] t@ == "sha256"@) by { axiom_str_ext(t, "sha256"); }
            assert forall|t: &str| (t == "sha512") == (#[trigger] t@ == "sha512"@) by { axiom_str_ext(t, "sha512"); }
        }
        match s.to_lowercase().as_str() {
            "blake2s" => Ok(Digest::BLAKE2s),
            "md5" => Ok(Digest::MD5),
            "rmd160" => Ok(Digest::RMD160),
            "sha1" => Ok(Digest::SHA1),
            "sha256" => Ok(Digest::SHA256),
            "sha512" => Ok(Digest::SHA512),
            _ => Err(DigestError::Unsupported(s.to_string())),
        }
    }
//@ end
}

// ---------------- src/distinfo.rs: one line ----------------
//@ extract src/distinfo.rs : enum Line
enum Line {
    RcsId(OsString),
    Size(PathBuf, u64),
    Checksum(Digest, PathBuf, String),
    None,
}
//@ end

pub enum LineV { RcsId(Seq<u8>), Size(Seq<u8>, int), Checksum(Digest, Seq<u8>, Seq<char>), None }
spec fn lv(l: Line) -> LineV {
    match l {
        Line::RcsId(s) => LineV::RcsId(osbs(&s)),
        Line::Size(p, n) => LineV::Size(pbb(&p), n as int),
        Line::Checksum(d, p, h) => LineV::Checksum(d, pbb(&p), h@),
        Line::None => LineV::None,
    }
}
/// leading ASCII whitespace removed
pub open spec fn trim_ws(b: Seq<u8>) -> Seq<u8> decreases b.len() {
    if b.len() > 0 && aws(b[0]) { trim_ws(b.skip(1)) } else { b }
}
pub open spec fn RCS_PREFIX() -> Seq<u8> { seq![0x24u8, 0x4eu8, 0x65u8, 0x74u8, 0x42u8, 0x53u8, 0x44u8, 0x3au8, 0x20u8] }   // "$NetBSD: "
pub open spec fn is_paren(f: Seq<u8>) -> bool { f.len() >= 1 && f[0] == 0x28u8 && f.last() == 0x29u8 }
/// statement of C11 for one non-blank, non-comment line (leading blanks already removed)
pub open spec fn one_line(l: Seq<u8>) -> LineV {
    if RCS_PREFIX().is_prefix_of(l) { LineV::RcsId(l) }
    else {
        let fs = ws_fields(l);
        if fs.len() >= 4 && valid_utf8(fs[0]) && is_paren(fs[1]) && fs[2] == seq![0x3du8] && valid_utf8(fs[3]) {
            let action = decode_utf8(fs[0]);
            let name = fs[1].subrange(1, fs[1].len() - 1);
            let value = decode_utf8(fs[3]);
            if action == "Size"@ {
                match u64_text_value(value) { Some(n) => LineV::Size(name, n), None => LineV::None }
            } else {
                match digest_of_name(action) { Some(d) => LineV::Checksum(d, name, value), None => LineV::None }
            }
        } else { LineV::None }
    }
}
/// the first piece that is neither blank nor a comment decides
pub open spec fn first_line(pieces: Seq<Seq<u8>>, i: int) -> LineV decreases pieces.len() - i {
    if i < 0 || i >= pieces.len() { LineV::None }
    else {
        let l = trim_ws(pieces[i]);
        if l.len() == 0 || l[0] == 0x23u8 { first_line(pieces, i + 1) } else { one_line(l) }
    }
}
pub open spec fn line_spec(b: Seq<u8>) -> LineV { first_line(split_nl(b), 0) }

impl Line {
//@ extract src/distinfo.rs : impl Line fn from_bytes
//@ rewrite D6.split_nl_bytes D6.split_ascii_ws D1.for_vec_while D6.slice_starts_with_lit D6.osstring_from_vec_line D6.string_from_utf8_slice D6.osstr_from_bytes D6.path_push_osstr D6.slice_ne_lit D6.u64_from_str D6.string_eq_lit D16.bytestr_to_array
    fn from_bytes(bytes: &[u8]) -> (r: Line)
        ensures lv(r) == line_spec(bytes@)
    {
        let ghost pieces = split_nl(bytes@);
        let __v_line = shim_split_nl(bytes);
        let mut __i_line: usize = 0;
        while __i_line < __v_line.len()
            invariant
                pieces == split_nl(bytes@), __v_line@.len() == pieces.len(), __i_line <= __v_line@.len(),
                forall|i: int| 0 <= i < pieces.len() ==> (#[trigger] __v_line@[i])@ == pieces[i],
                first_line(pieces, __i_line as int) == line_spec(bytes@),
            decreases __v_line@.len() - __i_line
        {
            let line = __v_line[__i_line];
            __i_line += 1;
            let ghost whole = line@;
            let mut start = 0;
            proof { assert(whole.skip(0) =~= whole); axiom_slice_len_fits(line); }
            for ch in it: line.iter()
                invariant_except_break start == it.index@,
                invariant
                    it.snapshot@.remaining().len() == whole.len(), whole == line@, start <= whole.len(), whole.len() <= usize::MAX,
                    forall|i: int| 0 <= i < whole.len() ==> *(#[trigger] it.snapshot@.remaining()[i]) == whole[i],
                    trim_ws(whole.skip(start as int)) == trim_ws(whole),
                ensures start <= whole.len(), trim_ws(whole.skip(start as int)) == trim_ws(whole),
                    start == whole.len() || !aws(whole[start as int]),
            {
                proof { lemma_aws_char(*ch); }
                if !(ch.is_ascii() && (*ch as char).is_whitespace()) {
                    break;
                }
                proof { assert(start < whole.len()); assert(whole.skip(start as int).skip(1) =~= whole.skip(start + 1)); }
                start += 1;
            }
            let line = &line[start..];
            proof {
                assert(line@ =~= whole.skip(start as int));
                assert(trim_ws(line@) == line@);
                assert(line@ == trim_ws(whole));
                reveal_strlit_bytes();
            }
            if line.starts_with(b"#") || line.is_empty() {
                continue;
            }
            if line.starts_with(b"$NetBSD: ") {
                return Line::RcsId(OsString::from_vec((*line).to_vec()));
            }
            let ghost fs = ws_fields(line@);
            let mut field: usize = 0;
            let mut action = String::new();
            let mut path = PathBuf::new();
            let mut value = String::new();
            let __v_s = shim_split_ascii_ws(line);
            let mut __i_s: usize = 0;
            while __i_s < __v_s.len()
                invariant
                    __i_s <= __v_s@.len(), fs == ws_fields(line@), nonempty_views(__v_s@, __v_s@.len() as int) == fs,
                    nonempty_views(__v_s@, __i_s as int) == fs.take(field as int), field <= fs.len(), field <= __i_s,
                    field >= 1 ==> valid_utf8(fs[0]) && action@ == decode_utf8(fs[0]),
                    field == 0 ==> action@.len() == 0,
                    field <= 1 ==> pbb(&path).len() == 0,
                    field >= 2 ==> is_paren(fs[1]) && pbb(&path) == fs[1].subrange(1, fs[1].len() - 1),
                    field >= 3 ==> fs[2] == seq![0x3du8],
                    field >= 4 ==> valid_utf8(fs[3]) && value@ == decode_utf8(fs[3]),
                    one_line(line@) == one_line(trim_ws(whole)), !RCS_PREFIX().is_prefix_of(line@),
                    line_spec(bytes@) == one_line(line@),
                decreases __v_s@.len() - __i_s
            {
                let s = __v_s[__i_s];
                proof { lemma_nonempty_step(__v_s@, __i_s as int); lemma_nonempty_mono(__v_s@, __i_s as int + 1, __v_s@.len() as int); }
                __i_s += 1;
                if s.is_empty() {
                    continue;
                }
                proof {
                    let nv1 = nonempty_views(__v_s@, __i_s as int);
                    assert(nv1 == fs.take(field as int).push(s@));
                    assert(nv1.is_prefix_of(fs));
                    assert(nv1.len() == field + 1);
                    assert(fs[field as int] == nv1[field as int]);
                    assert(fs[field as int] == s@);
                    assert(fs.take(field + 1) =~= nv1);
                    assert forall|p: &[u8]| p@.len() == 1 && p@[0] == 0x3du8 implies #[trigger] p@ == seq![0x3du8] by { assert(p@ =~= seq![0x3du8]); }
                }
                if field == 0 {
                    action = match String::from_utf8(s.to_vec()) {
                        Ok(s) => s,
                        Err(_) => return Line::None,
                    };
                }
                if field == 1 {
                    if s[0] == b'(' && s[s.len() - 1] == b')' {
                        path.push(OsStr::from_bytes(&s[1..s.len() - 1]));
                    } else {
                        return Line::None;
                    }
                }
                if field == 2 && s != b"=" {
                    return Line::None;
                }
                if field == 3 {
                    value = match String::from_utf8(s.to_vec()) {
                        Ok(s) => s,
                        Err(_) => return Line::None,
                    }
                }
                field += 1;
            }
            proof { assert(fs.take(field as int) == fs) by { assert(nonempty_views(__v_s@, __v_s@.len() as int) == fs.take(field as int)); } assert(field == fs.len()); }
            if field < 4 {
                return Line::None;
            }
            if action == "Size" {
                match u64::from_str(&value) {
                    Ok(n) => return Line::Size(path, n),
                    Err(_) => return Line::None,
                };
            } else {
                match Digest::from_str(&action) {
                    Ok(d) => return Line::Checksum(d, path, value),
                    Err(_) => return Line::None,
                }
            }
        }
        Line::None
    }
//@ end
}

/// byte-string literals used by Line::from_bytes
pub proof fn reveal_strlit_bytes() { }
pub proof fn lemma_nonempty_step(v: Seq<&[u8]>, i: int)
    requires 0 <= i < v.len()
    ensures nonempty_views(v, i + 1) == (if v[i]@.len() == 0 { nonempty_views(v, i) } else { nonempty_views(v, i).push(v[i]@) })
{
}
pub proof fn lemma_nonempty_mono(v: Seq<&[u8]>, i: int, j: int)
    requires 0 <= i <= j <= v.len()
    ensures nonempty_views(v, i).is_prefix_of(nonempty_views(v, j))
    decreases j - i
{
    if i < j {
        lemma_nonempty_mono(v, i, j - 1);
        lemma_nonempty_step(v, j - 1);
    }
}

} // verus!
fn main() {}
