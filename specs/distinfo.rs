// Unit distinfo: src/distinfo.rs (+ Digest name tables of src/digest.rs) -- C10 C11 C12 C17
//@ unit distinfo
#![allow(unused_imports)]
use vstd::prelude::*;
use vstd::utf8::*;
use vstd::string::*;
use std::ffi::{OsStr, OsString};
use std::os::unix::ffi::{OsStrExt, OsStringExt};
use std::path::{Path, PathBuf};
use std::string::FromUtf8Error;
use vstd::std_specs::iter::IteratorSpec;
verus! {

//@ include lib/std_str.rs
//@ include lib/std_os.rs
//@ include lib/std_bytes.rs

#[verifier::external_type_specification]
#[verifier::external_body]
pub struct ExFromUtf8Error(FromUtf8Error);
#[verifier::external_type_specification]
#[verifier::external_body]
pub struct ExIoError(std::io::Error);

//@ include lib/digest_names.rs
//@ include lib/digest_spec.rs

// ---------------- src/distinfo.rs: one line ----------------
//@ extract src/distinfo.rs : enum Line
enum Line {
    RcsId(OsString),
    Size(PathBuf, u64),
    Checksum(Digest, PathBuf, String),
    None,
}
//@ end

pub enum LineV { RcsId(Seq<u8>), Size(Seq<u8>, int), Checksum(Digest, Seq<u8>, Seq<char>), None }
spec fn lv(l: Line) -> LineV {
    match l {
        Line::RcsId(s) => LineV::RcsId(osbs(&s)),
        Line::Size(p, n) => LineV::Size(pbb(&p), n as int),
        Line::Checksum(d, p, h) => LineV::Checksum(d, pbb(&p), h@),
        Line::None => LineV::None,
    }
}
/// leading ASCII whitespace removed
pub open spec fn trim_ws(b: Seq<u8>) -> Seq<u8> decreases b.len() {
    if b.len() > 0 && aws(b[0]) { trim_ws(b.skip(1)) } else { b }
}
pub open spec fn RCS_PREFIX() -> Seq<u8> { seq![0x24u8, 0x4eu8, 0x65u8, 0x74u8, 0x42u8, 0x53u8, 0x44u8, 0x3au8, 0x20u8] }   // "$NetBSD: "
pub open spec fn is_paren(f: Seq<u8>) -> bool { f.len() >= 1 && f[0] == 0x28u8 && f.last() == 0x29u8 }
/// statement of C11 for one non-blank, non-comment line (leading blanks already removed)
pub open spec fn one_line(l: Seq<u8>) -> LineV {
    if RCS_PREFIX().is_prefix_of(l) { LineV::RcsId(l) }
    else {
        let fs = ws_fields(l);
        if fs.len() >= 4 && valid_utf8(fs[0]) && is_paren(fs[1]) && fs[2] == seq![0x3du8] && valid_utf8(fs[3]) {
            let action = decode_utf8(fs[0]);
            let name = fs[1].subrange(1, fs[1].len() - 1);
            let value = decode_utf8(fs[3]);
            if action == "Size"@ {
                match u64_text_value(value) { Some(n) => LineV::Size(name, n), None => LineV::None }
            } else {
                match digest_of_name(action) { Some(d) => LineV::Checksum(d, name, value), None => LineV::None }
            }
        } else { LineV::None }
    }
}
/// the first piece that is neither blank nor a comment decides
pub open spec fn first_line(pieces: Seq<Seq<u8>>, i: int) -> LineV decreases pieces.len() - i {
    if i < 0 || i >= pieces.len() { LineV::None }
    else {
        let l = trim_ws(pieces[i]);
        if l.len() == 0 || l[0] == 0x23u8 { first_line(pieces, i + 1) } else { one_line(l) }
    }
}
pub open spec fn line_spec(b: Seq<u8>) -> LineV { first_line(split_nl(b), 0) }

impl Line {
//@ extract src/distinfo.rs : impl Line fn from_bytes
//@ rewrite D6.split_nl_bytes D6.split_ascii_ws D1.for_vec_while D6.slice_starts_with_lit D6.osstring_from_vec_line D6.string_from_utf8_slice D6.osstr_from_bytes D6.path_push_osstr D6.slice_ne_lit D6.u64_from_str D6.string_eq_lit D6.string_ne_lit D16.bytestr_to_array
    fn from_bytes(bytes: &[u8]) -> (r: Line)
        ensures lv(r) == line_spec(bytes@)
    {
        let ghost pieces = split_nl(bytes@);
        let __v_line = shim_split_nl(bytes);
        let mut __i_line: usize = 0;
        while __i_line < __v_line.len()
            invariant
                pieces == split_nl(bytes@), __v_line@.len() == pieces.len(), __i_line <= __v_line@.len(),
                forall|i: int| 0 <= i < pieces.len() ==> (#[trigger] __v_line@[i])@ == pieces[i],
                first_line(pieces, __i_line as int) == line_spec(bytes@),
            decreases __v_line@.len() - __i_line
        {
            let line = __v_line[__i_line];
            __i_line += 1;
            let ghost whole = line@;
            let mut start = 0;
            proof { assert(whole.skip(0) =~= whole); axiom_slice_len_fits(line); }
            for ch in it: line.iter()
                invariant_except_break start == it.index@,
                invariant
                    it.snapshot@.remaining().len() == whole.len(), whole == line@, start <= whole.len(), whole.len() <= usize::MAX,
                    forall|i: int| 0 <= i < whole.len() ==> *(#[trigger] it.snapshot@.remaining()[i]) == whole[i],
                    trim_ws(whole.skip(start as int)) == trim_ws(whole),
                ensures start <= whole.len(), trim_ws(whole.skip(start as int)) == trim_ws(whole),
                    start == whole.len() || !aws(whole[start as int]),
            {
                proof { lemma_aws_char(*ch); }
                if !(ch.is_ascii() && (*ch as char).is_whitespace()) {
                    break;
                }
                proof { assert(start < whole.len()); assert(whole.skip(start as int).skip(1) =~= whole.skip(start + 1)); }
                start += 1;
            }
            let line = &line[start..];
            proof {
                assert(line@ =~= whole.skip(start as int));
                assert(trim_ws(line@) == line@);
                assert(line@ == trim_ws(whole));
                reveal_strlit_bytes();
            }
            if line.starts_with(b"#") || line.is_empty() {
                continue;
            }
            if line.starts_with(b"$NetBSD: ") {
                return Line::RcsId(OsString::from_vec((*line).to_vec()));
            }
            let ghost fs = ws_fields(line@);
            let mut field: usize = 0;
            let mut action = String::new();
            let mut path = PathBuf::new();
            let mut value = String::new();
            let __v_s = shim_split_ascii_ws(line);
            let mut __i_s: usize = 0;
            while __i_s < __v_s.len()
                invariant
                    __i_s <= __v_s@.len(), fs == ws_fields(line@), nonempty_views(__v_s@, __v_s@.len() as int) == fs,
                    nonempty_views(__v_s@, __i_s as int) == fs.take(field as int), field <= fs.len(), field <= __i_s,
                    field >= 1 ==> valid_utf8(fs[0]) && action@ == decode_utf8(fs[0]),
                    field == 0 ==> action@.len() == 0,
                    field <= 1 ==> pbb(&path).len() == 0,
                    field >= 2 ==> is_paren(fs[1]) && pbb(&path) == fs[1].subrange(1, fs[1].len() - 1),
                    field >= 3 ==> fs[2] == seq![0x3du8],
                    field >= 4 ==> valid_utf8(fs[3]) && value@ == decode_utf8(fs[3]),
                    one_line(line@) == one_line(trim_ws(whole)), !RCS_PREFIX().is_prefix_of(line@),
                    line_spec(bytes@) == one_line(line@),
                decreases __v_s@.len() - __i_s
            {
                let s = __v_s[__i_s];
                proof { lemma_nonempty_step(__v_s@, __i_s as int); lemma_nonempty_mono(__v_s@, __i_s as int + 1, __v_s@.len() as int); }
                __i_s += 1;
                if s.is_empty() {
                    continue;
                }
                proof {
                    let nv1 = nonempty_views(__v_s@, __i_s as int);
                    assert(nv1 == fs.take(field as int).push(s@));
                    assert(nv1.is_prefix_of(fs));
                    assert(nv1.len() == field + 1);
                    assert(fs[field as int] == nv1[field as int]);
                    assert(fs[field as int] == s@);
                    assert(fs.take(field + 1) =~= nv1);
                    assert forall|p: &[u8]| p@.len() == 1 && p@[0] == 0x3du8 implies #[trigger] p@ == seq![0x3du8] by { assert(p@ =~= seq![0x3du8]); }
                }
                if field == 0 {
                    action = match String::from_utf8(s.to_vec()) {
                        Ok(s) => s,
                        Err(_) => return Line::None,
                    };
                }
                if field == 1 {
                    if s[0] == b'(' && s[s.len() - 1] == b')' {
                        path.push(OsStr::from_bytes(&s[1..s.len() - 1]));
                    } else {
                        return Line::None;
                    }
                }
                if field == 2 && s != b"=" {
                    return Line::None;
                }
                if field == 3 {
                    value = match String::from_utf8(s.to_vec()) {
                        Ok(s) => s,
                        Err(_) => return Line::None,
                    }
                }
                field += 1;
            }
            proof { assert(fs.take(field as int) == fs) by { assert(nonempty_views(__v_s@, __v_s@.len() as int) == fs.take(field as int)); } assert(field == fs.len()); }
            if field < 4 {
                return Line::None;
            }
            if action == "Size" {
                match u64::from_str(&value) {
                    Ok(n) => return Line::Size(path, n),
                    Err(_) => return Line::None,
                };
            } else {
                match Digest::from_str(&action) {
                    Ok(d) => return Line::Checksum(d, path, value),
                    Err(_) => return Line::None,
                }
            }
        }
        Line::None
    }
//@ end
}

// ---------------- file classification ----------------
//@ extract src/distinfo.rs : enum EntryType
//@ rewrite D12.drop_default_attr
#[derive(Debug, Eq, Hash, PartialEq)]
pub enum EntryType {
    Distfile,
    Patchfile,
}
//@ end
impl Clone for EntryType {
    fn clone(&self) -> (r: Self) ensures r == *self { match self { EntryType::Distfile => EntryType::Distfile, EntryType::Patchfile => EntryType::Patchfile } }
}
impl Default for EntryType { fn default() -> (r: Self) ensures r == EntryType::Distfile { EntryType::Distfile } }

/// statement of C11's classification, over the (lossily decoded) file name: patch-* and emul-*-patch-*,
/// except patch-local-*, *.orig, *.rej, *~ and names containing ".tar."
pub open spec fn is_patch_text(t: Seq<char>) -> bool {
    !("patch-local-"@.is_prefix_of(t) || is_suffix(".orig"@, t) || is_suffix(".rej"@, t) || is_suffix("~"@, t))
    && ("patch-"@.is_prefix_of(t) || ("emul-"@.is_prefix_of(t) && has_sub(t.skip("emul-"@.len() as int), "-patch-"@)))
    && !has_sub(t, ".tar."@)
}
pub open spec fn class_of(b: Seq<u8>) -> EntryType {
    match fname(b) { Some(n) => if is_patch_text(lossy(n)) { EntryType::Patchfile } else { EntryType::Distfile }, None => EntryType::Distfile }
}
impl EntryType {
//@ extract src/distinfo.rs : impl From<P> for EntryType fn from
//@ rewrite D9.generic_path_param D6.path_file_name D6.os_to_string_lossy D6.s_starts_with D6.s_ends_with D6.s_strip_prefix_contains D6.s_contains
    fn from(path: P) -> (r: Self)
        ensures r == class_of(pab(path))
    {
        let Some(p) = path.as_ref().file_name() else {
            return EntryType::Distfile;
        };
        let s = p.to_string_lossy();
        if s.starts_with("patch-local-")
            || s.ends_with(".orig")
            || s.ends_with(".rej")
            || s.ends_with("~")
        {
            return EntryType::Distfile;
        }
        if s.starts_with("patch-")
            || s.strip_prefix("emul-")
                .is_some_and(|rest| rest.contains("-patch-"))
        {
            if !s.contains(".tar.") {
                return EntryType::Patchfile;
            }
        }

        EntryType::Distfile
    }
//@ end
}

// ---------------- entries and the two insertion-ordered maps ----------------
//@ extract src/distinfo.rs : struct Checksum
pub struct Checksum {
    pub digest: Digest,
    pub hash: String,
}
//@ end
impl Checksum {
//@ extract src/distinfo.rs : impl Checksum fn new
    pub fn new(digest: Digest, hash: String) -> (r: Checksum)
        ensures r.digest == digest, r.hash == hash
    {
        Checksum { digest, hash }
    }
//@ end
}
//@ extract src/distinfo.rs : struct Entry
pub struct Entry {
    pub filename: PathBuf,
    pub filepath: PathBuf,
    pub size: Option<u64>,
    pub checksums: Vec<Checksum>,
    pub filetype: EntryType,
}
//@ end
// D12: derive(Default) written out
impl Default for Entry {
    fn default() -> (r: Entry)
        ensures pbb(&r.filename).len() == 0, pbb(&r.filepath).len() == 0, r.size is None, r.checksums@.len() == 0, r.filetype == EntryType::Distfile
    { Entry { filename: PathBuf::new(), filepath: PathBuf::new(), size: None, checksums: Vec::new(), filetype: EntryType::Distfile } }
}
pub struct EntryV { pub name: Seq<u8>, pub size: Option<int>, pub sums: Seq<(Digest, Seq<char>)>, pub ftype: EntryType }
pub open spec fn sums_v(c: Seq<Checksum>) -> Seq<(Digest, Seq<char>)> { Seq::new(c.len(), |i: int| (c[i].digest, c[i].hash@)) }
pub open spec fn entry_v(e: Entry) -> EntryV {
    EntryV { name: pbb(&e.filename), size: match e.size { Some(n) => Some(n as int), None => None }, sums: sums_v(e.checksums@), ftype: e.filetype }
}

/// std::path equality of keys (component-wise: repeated '/' and '.' components are not significant): an uninterpreted normal form
pub uninterp spec fn pkey(b: Seq<u8>) -> Seq<u8>;
/// index of the entry stored under a key path-equal to k, or -1
pub open spec fn find_key(m: Seq<(Seq<u8>, Entry)>, k: Seq<u8>) -> int decreases m.len() {
    if m.len() == 0 { -1 } else if pkey(m[0].0) == pkey(k) { 0 } else { let r = find_key(m.skip(1), k); if r < 0 { -1 } else { r + 1 } }
}
pub proof fn lemma_find_key(m: Seq<(Seq<u8>, Entry)>, k: Seq<u8>)
    ensures -1 <= find_key(m, k) < m.len(), find_key(m, k) >= 0 ==> pkey(m[find_key(m, k)].0) == pkey(k),
        forall|i: int| 0 <= i < m.len() && (find_key(m, k) < 0 || i < find_key(m, k)) ==> pkey(m[i].0) != pkey(k),
    decreases m.len()
{
    if m.len() > 0 && pkey(m[0].0) != pkey(k) {
        lemma_find_key(m.skip(1), k);
        let t = m.skip(1);
        assert forall|i: int| 0 <= i < m.len() && (find_key(m, k) < 0 || i < find_key(m, k)) implies pkey(m[i].0) != pkey(k) by { if i > 0 { assert(m[i] == t[i - 1]); } }
    }
}
// D10: the indexmap crate as an opaque dependency: an insertion-ordered map keyed by path equality
pub mod indexmap {
    use vstd::prelude::*;
    use std::path::{Path, PathBuf};
    use super::{Entry, find_key, pbb, pab};
    verus!{
    #[verifier::external_body]
    #[verifier::reject_recursive_types(K)]
    #[verifier::reject_recursive_types(V)]
    pub struct IndexMap<K, V> { _k: core::marker::PhantomData<(K, V)> }
    impl IndexMap<PathBuf, Entry> {
        /// (key bytes as first inserted, value) in insertion order
        pub uninterp spec fn view(&self) -> Seq<(Seq<u8>, Entry)>;
        #[verifier::external_body]
        pub fn new() -> (r: Self) ensures r.view().len() == 0 { unimplemented!() }
        #[verifier::external_body]
        pub fn get_mut(&mut self, key: &Path) -> (r: Option<&mut Entry>)
            ensures (match r {
                Some(e) => find_key(old(self).view(), pab(key)) >= 0 && *e == old(self).view()[find_key(old(self).view(), pab(key))].1
                    && final(self).view() == old(self).view().update(find_key(old(self).view(), pab(key)),
                        (old(self).view()[find_key(old(self).view(), pab(key))].0, *final(e))),
                None => find_key(old(self).view(), pab(key)) < 0 && final(self).view() == old(self).view(),
            })
        { unimplemented!() }
        #[verifier::external_body]
        pub fn get(&self, key: &Path) -> (r: Option<&Entry>)
            ensures (match r {
                Some(e) => find_key(self.view(), pab(key)) >= 0 && *e == self.view()[find_key(self.view(), pab(key))].1,
                None => find_key(self.view(), pab(key)) < 0,
            })
        { unimplemented!() }
        /// insert: an existing (path-equal) key keeps its position and its stored key, only the value is replaced; a new key is appended
        #[verifier::external_body]
        pub fn insert(&mut self, key: PathBuf, value: Entry) -> (r: Option<Entry>)
            ensures (if find_key(old(self).view(), pbb(&key)) >= 0 {
                    r == Some(old(self).view()[find_key(old(self).view(), pbb(&key))].1)
                    && final(self).view() == old(self).view().update(find_key(old(self).view(), pbb(&key)), (old(self).view()[find_key(old(self).view(), pbb(&key))].0, value))
                } else { r is None && final(self).view() == old(self).view().push((pbb(&key), value)) })
        { unimplemented!() }
    }
    }
}
use indexmap::IndexMap;

//@ extract src/distinfo.rs : struct Distinfo
pub struct Distinfo {
    rcsid: Option<OsString>,
    distfiles: IndexMap<PathBuf, Entry>,
    patchfiles: IndexMap<PathBuf, Entry>,
}
//@ end
impl Default for Distinfo {
    fn default() -> (r: Distinfo) ensures r.wf(), r.dv() == dv_empty()
    {
        let r = Distinfo { rcsid: None, distfiles: IndexMap::new(), patchfiles: IndexMap::new() };
        proof { assert(evs(r.distfiles.view()) =~= Seq::<EntryV>::empty()); assert(evs(r.patchfiles.view()) =~= Seq::<EntryV>::empty()); }
        r
    }
}
pub struct DistinfoV { pub rcsid: Option<Seq<u8>>, pub dist: Seq<EntryV>, pub patch: Seq<EntryV> }
pub open spec fn dv_empty() -> DistinfoV { DistinfoV { rcsid: None, dist: Seq::<EntryV>::empty(), patch: Seq::<EntryV>::empty() } }
pub open spec fn evs(m: Seq<(Seq<u8>, Entry)>) -> Seq<EntryV> { Seq::new(m.len(), |i: int| entry_v(m[i].1)) }
/// index of the entry whose *file name* is path-equal to k
pub open spec fn find_name(m: Seq<EntryV>, k: Seq<u8>) -> int decreases m.len() {
    if m.len() == 0 { -1 } else if pkey(m[0].name) == pkey(k) { 0 } else { let r = find_name(m.skip(1), k); if r < 0 { -1 } else { r + 1 } }
}
/// statement of C11: a recognised Size line sets the size under exactly that name (existing entry keeps its position,
/// a new name is appended at the end), in the map chosen by the name's classification; nothing else changes
pub open spec fn upd_size(m: Seq<EntryV>, name: Seq<u8>, n: int, t: EntryType) -> Seq<EntryV> {
    let i = find_name(m, name);
    if i >= 0 { m.update(i, EntryV { size: Some(n), ..m[i] }) }
    else { m.push(EntryV { name: name, size: Some(n), sums: Seq::<(Digest, Seq<char>)>::empty(), ftype: t }) }
}
pub open spec fn upd_sum(m: Seq<EntryV>, name: Seq<u8>, d: Digest, h: Seq<char>, t: EntryType) -> Seq<EntryV> {
    let i = find_name(m, name);
    if i >= 0 { m.update(i, EntryV { sums: m[i].sums.push((d, h)), ..m[i] }) }
    else { m.push(EntryV { name: name, size: None, sums: seq![(d, h)], ftype: t }) }
}
pub open spec fn step_line(v: DistinfoV, l: LineV) -> DistinfoV {
    match l {
        LineV::RcsId(s) => DistinfoV { rcsid: Some(s), ..v },
        LineV::Size(p, n) => if class_of(p) == EntryType::Patchfile { DistinfoV { patch: upd_size(v.patch, p, n, EntryType::Patchfile), ..v } }
                             else { DistinfoV { dist: upd_size(v.dist, p, n, EntryType::Distfile), ..v } },
        LineV::Checksum(d, p, h) => if class_of(p) == EntryType::Patchfile { DistinfoV { patch: upd_sum(v.patch, p, d, h, EntryType::Patchfile), ..v } }
                             else { DistinfoV { dist: upd_sum(v.dist, p, d, h, EntryType::Distfile), ..v } },
        LineV::None => v,
    }
}
pub open spec fn fold_dist(pieces: Seq<Seq<u8>>, i: int, v: DistinfoV) -> DistinfoV decreases pieces.len() - i {
    if i < 0 || i >= pieces.len() { v } else { fold_dist(pieces, i + 1, step_line(v, line_spec(pieces[i]))) }
}
/// parsing arbitrary distinfo text
pub open spec fn parse_distinfo(b: Seq<u8>) -> DistinfoV { fold_dist(split_nl(b), 0, dv_empty()) }

impl Distinfo {
    pub closed spec fn dmap(&self) -> Seq<(Seq<u8>, Entry)> { self.distfiles.view() }
    pub closed spec fn pmap(&self) -> Seq<(Seq<u8>, Entry)> { self.patchfiles.view() }
    pub closed spec fn dv(&self) -> DistinfoV {
        DistinfoV { rcsid: match self.rcsid { Some(s) => Some(osbs(&s)), None => None }, dist: evs(self.distfiles.view()), patch: evs(self.patchfiles.view()) }
    }
    /// representation invariant: every entry is stored under its own file name
    pub closed spec fn wf(&self) -> bool {
        (forall|i: int| 0 <= i < self.distfiles.view().len() ==> (#[trigger] self.distfiles.view()[i]).0 == pbb(&self.distfiles.view()[i].1.filename))
        && (forall|i: int| 0 <= i < self.patchfiles.view().len() ==> (#[trigger] self.patchfiles.view()[i]).0 == pbb(&self.patchfiles.view()[i].1.filename))
    }

//@ extract src/distinfo.rs : impl Distinfo fn new
    pub fn new() -> (r: Distinfo)
        ensures r.wf(), r.dv() == dv_empty()
    {
        let di: Distinfo = Default::default();
        di
    }
//@ end

//@ extract src/distinfo.rs : impl Distinfo fn update_size
//@ rewrite D9.generic_path_param
    fn update_size<P: AsRef<Path>>(&mut self, path: P, size: u64)
        requires old(self).wf()
        ensures final(self).wf(), final(self).dv() == step_line(old(self).dv(), LineV::Size(pab(path), size as int))
    {
        let filetype = EntryType::from(path.as_ref());
        let ghost ft = filetype;
        let ghost m0 = if ft == EntryType::Patchfile { self.patchfiles.view() } else { self.distfiles.view() };
        proof { lemma_find_key(m0, pab(path)); lemma_find_name(m0, pab(path)); }
        let map = match filetype {
            EntryType::Distfile => &mut self.distfiles,
            EntryType::Patchfile => &mut self.patchfiles,
        };
        match map.get_mut(path.as_ref()) {
            Some(entry) => entry.size = Some(size),
            None => {
                map.insert(
                    path.as_ref().to_path_buf(),
                    Entry {
                        filename: path.as_ref().to_path_buf(),
                        size: Some(size),
                        filetype,
                        ..Default::default()
                    },
                );
            }
        };
        proof {
            let m1 = if ft == EntryType::Patchfile { self.patchfiles.view() } else { self.distfiles.view() };
            let i = find_key(m0, pab(path));
            if i >= 0 {
                assert(m1.len() == m0.len());
                assert forall|j: int| 0 <= j < m1.len() implies #[trigger] evs(m1)[j] == upd_size(evs(m0), pab(path), size as int, ft)[j] by {
                    if j == i { assert(entry_v(m1[i].1) == (EntryV { size: Some(size as int), ..entry_v(m0[i].1) })); } else { assert(m1[j] == m0[j]); }
                }
            } else {
                assert(m1 == m0.push(m1[m0.len() as int]));
                assert forall|j: int| 0 <= j < m1.len() implies #[trigger] evs(m1)[j] == upd_size(evs(m0), pab(path), size as int, ft)[j] by {
                    if j < m0.len() { assert(m1[j] == m0[j]); }
                    else { assert(sums_v(m1[j].1.checksums@) =~= Seq::<(Digest, Seq<char>)>::empty()); }
                }
            }
            assert(evs(m1) =~= upd_size(evs(m0), pab(path), size as int, ft));
        }
    }
//@ end

//@ extract src/distinfo.rs : impl Distinfo fn update_checksum
//@ rewrite D9.generic_path_param
    fn update_checksum<P: AsRef<Path>>(
        &mut self,
        path: P,
        digest: Digest,
        hash: String,
    )
        requires old(self).wf()
        ensures final(self).wf(), final(self).dv() == step_line(old(self).dv(), LineV::Checksum(digest, pab(path), hash@))
    {
        let filetype = EntryType::from(path.as_ref());
        let ghost ft = filetype;
        let ghost m0 = if ft == EntryType::Patchfile { self.patchfiles.view() } else { self.distfiles.view() };
        let ghost hv = hash@;
        proof { lemma_find_key(m0, pab(path)); lemma_find_name(m0, pab(path)); }
        let map = match filetype {
            EntryType::Distfile => &mut self.distfiles,
            EntryType::Patchfile => &mut self.patchfiles,
        };
        match map.get_mut(path.as_ref()) {
            Some(entry) => entry.checksums.push(Checksum { digest, hash }),
            None => {
                let v: Vec<Checksum> = vec![Checksum { digest, hash }];
                map.insert(
                    path.as_ref().to_path_buf(),
                    Entry {
                        filename: path.as_ref().to_path_buf(),
                        checksums: v,
                        filetype,
                        ..Default::default()
                    },
                );
            }
        };
        proof {
            let m1 = if ft == EntryType::Patchfile { self.patchfiles.view() } else { self.distfiles.view() };
            let i = find_key(m0, pab(path));
            let want = upd_sum(evs(m0), pab(path), digest, hv, ft);
            if i >= 0 {
                assert(m1.len() == m0.len());
                assert forall|j: int| 0 <= j < m1.len() implies #[trigger] evs(m1)[j] == want[j] by {
                    if j == i {
                        assert(sums_v(m1[i].1.checksums@) =~= sums_v(m0[i].1.checksums@).push((digest, hv)));
                    } else { assert(m1[j] == m0[j]); }
                }
            } else {
                assert(m1 == m0.push(m1[m0.len() as int]));
                assert forall|j: int| 0 <= j < m1.len() implies #[trigger] evs(m1)[j] == want[j] by {
                    if j < m0.len() { assert(m1[j] == m0[j]); }
                    else { assert(sums_v(m1[j].1.checksums@) =~= seq![(digest, hv)]); }
                }
            }
            assert(evs(m1) =~= want);
        }
    }
//@ end

//@ extract src/distinfo.rs : impl Distinfo fn from_bytes
//@ rewrite D6.split_nl_bytes
    pub fn from_bytes(bytes: &[u8]) -> (r: Distinfo)
        ensures r.wf(), r.dv() == parse_distinfo(bytes@)
    {
        let mut distinfo = Distinfo::new();
        let ghost pieces = split_nl(bytes@);
        for line in it: bytes.split(|c| *c == b'\n')
            invariant
                pieces == split_nl(bytes@), it.snapshot@.remaining().len() == pieces.len(),
                forall|i: int| 0 <= i < pieces.len() ==> (#[trigger] it.snapshot@.remaining()[i])@ == pieces[i],
                distinfo.wf(),
                fold_dist(pieces, it.index@ as int, distinfo.dv()) == parse_distinfo(bytes@),
        {
            let ghost v0 = distinfo.dv();
            match Line::from_bytes(line) {
                Line::RcsId(s) => distinfo.rcsid = Some(s),
                Line::Size(p, v) => {
                    distinfo.update_size(&p, v);
                }
                Line::Checksum(d, p, s) => {
                    distinfo.update_checksum(&p, d, s);
                }
                Line::None => {}
            }
            proof { assert(distinfo.dv() == step_line(v0, line_spec(pieces[it.index@ as int]))); }
        }
        distinfo
    }
//@ end
}

/// find_key on the stored keys agrees with find_name on the views (every entry is stored under its own name)
pub proof fn lemma_find_name(m: Seq<(Seq<u8>, Entry)>, k: Seq<u8>)
    requires forall|i: int| 0 <= i < m.len() ==> (#[trigger] m[i]).0 == pbb(&m[i].1.filename)
    ensures find_name(evs(m), k) == find_key(m, k)
    decreases m.len()
{
    if m.len() > 0 {
        assert(evs(m)[0].name == m[0].0);
        assert(evs(m).skip(1) =~= evs(m.skip(1)));
        if pkey(m[0].0) != pkey(k) { lemma_find_name(m.skip(1), k); }
    }
}

// ================= printing (C10) =================
/// decimal text of a u64 as printed by `{}`: its digits, no leading zeros (int_text, std_str.rs)
pub open spec fn u64_text(n: int) -> Seq<char> { int_text(n) }
/// ... which u64::from_str reads back as the same number (proved: lemma_int_text_u64)
pub proof fn lemma_u64_text_value(n: u64) ensures u64_text_value(u64_text(n as int)) == Some(n as int), is_ascii_chars(u64_text(n as int))
{ lemma_int_text_u64(n); }
// shims D8.format_*: format!(..).as_bytes() with `{}` = Display of the argument (Digest::fmt above is proved to print digest_name)
#[verifier::external_body]
fn shim_fmt_digest_open(d: &Digest) -> (r: Vec<u8>)
    ensures r@ == encode_utf8(digest_name(*d)) + seq![0x20u8, 0x28u8]
{ unimplemented!() /* format!("{} (", d).into_bytes(): Display for Digest is the inherent Digest::fmt in this unit */ }
#[verifier::external_body]
fn shim_fmt_close_hash(h: &String) -> (r: Vec<u8>)
    ensures r@ == seq![0x29u8, 0x20u8, 0x3du8, 0x20u8] + encode_utf8(h@) + seq![0x0au8]
{ format!(") = {}\n", h).into_bytes() }
#[verifier::external_body]
fn shim_fmt_close_size(n: u64) -> (r: Vec<u8>)
    ensures r@ == seq![0x29u8, 0x20u8, 0x3du8, 0x20u8] + encode_utf8(u64_text(n as int)) + BYTES_NL()
{ format!(") = {} bytes\n", n).into_bytes() }
#[verifier::external_body]
fn shim_path_bytes<'a>(p: &'a Path) -> (r: &'a [u8])
    ensures r@ == pab(p)
{ p.as_os_str().as_bytes() }
#[verifier::external_body]
fn shim_osstring_bytes<'a>(s: &'a OsString) -> (r: &'a [u8])
    ensures r@ == osbs(s)
{ s.as_bytes() }
#[verifier::external_body]
fn shim_imap_values<'a>(m: &'a IndexMap<PathBuf, Entry>) -> (r: Vec<&'a Entry>)
    ensures r@.len() == m.view().len(), forall|i: int| 0 <= i < r@.len() ==> *(#[trigger] r@[i]) == m.view()[i].1
{ unimplemented!() }

pub open spec fn BYTES_NL() -> Seq<u8> { seq![0x20u8, 0x62u8, 0x79u8, 0x74u8, 0x65u8, 0x73u8, 0x0au8] }     // " bytes\n"
pub open spec fn SIZE_OPEN() -> Seq<u8> { seq![0x53u8, 0x69u8, 0x7au8, 0x65u8, 0x20u8, 0x28u8] }              // "Size ("
pub open spec fn NETBSD_ID() -> Seq<u8> { seq![0x24u8, 0x4eu8, 0x65u8, 0x74u8, 0x42u8, 0x53u8, 0x44u8, 0x24u8] }   // "$NetBSD$"
/// 'ALGORITHM (name) = hash\n' with the name as its raw bytes
pub open spec fn sum_line(name: Seq<u8>, d: Digest, h: Seq<char>) -> Seq<u8> {
    encode_utf8(digest_name(d)) + seq![0x20u8, 0x28u8] + name + seq![0x29u8, 0x20u8, 0x3du8, 0x20u8] + encode_utf8(h) + seq![0x0au8]
}
pub open spec fn size_line(name: Seq<u8>, n: int) -> Seq<u8> {
    SIZE_OPEN() + name + seq![0x29u8, 0x20u8, 0x3du8, 0x20u8] + encode_utf8(u64_text(n)) + BYTES_NL()
}
pub open spec fn sum_lines(name: Seq<u8>, sums: Seq<(Digest, Seq<char>)>, n: int) -> Seq<u8> decreases n {
    if n <= 0 || n > sums.len() { Seq::<u8>::empty() } else { sum_lines(name, sums, n - 1) + sum_line(name, sums[n - 1].0, sums[n - 1].1) }
}
pub open spec fn entry_block(e: EntryV, with_size: bool) -> Seq<u8> {
    sum_lines(e.name, e.sums, e.sums.len() as int) + (if with_size && e.size is Some { size_line(e.name, e.size->Some_0) } else { Seq::<u8>::empty() })
}
pub open spec fn blocks(m: Seq<EntryV>, n: int, with_size: bool) -> Seq<u8> decreases n {
    if n <= 0 || n > m.len() { Seq::<u8>::empty() } else { blocks(m, n - 1, with_size) + entry_block(m[n - 1], with_size) }
}
/// canonical layout: RCS Id line, blank line, distfile blocks (checksums then size), patch blocks (checksums only)
pub open spec fn print_distinfo(v: DistinfoV) -> Seq<u8> {
    (match v.rcsid { Some(s) => s, None => NETBSD_ID() }) + seq![0x0au8, 0x0au8] + blocks(v.dist, v.dist.len() as int, true) + blocks(v.patch, v.patch.len() as int, false)
}
pub proof fn lemma_print_lits()
    ensures "Size (".spec_bytes() == SIZE_OPEN(), "$NetBSD$".spec_bytes() == NETBSD_ID(), "\n\n".spec_bytes() == seq![0x0au8, 0x0au8]
{
    reveal_strlit("Size ("); reveal_strlit("$NetBSD$"); reveal_strlit("\n\n");
    assert("Size (".spec_bytes() == encode_utf8("Size ("@)); assert("$NetBSD$".spec_bytes() == encode_utf8("$NetBSD$"@)); assert("\n\n".spec_bytes() == encode_utf8("\n\n"@));
    assert(is_ascii_chars("Size ("@)); is_ascii_chars_encode_utf8("Size ("@);
    assert(is_ascii_chars("$NetBSD$"@)); is_ascii_chars_encode_utf8("$NetBSD$"@);
    assert(is_ascii_chars("\n\n"@)); is_ascii_chars_encode_utf8("\n\n"@);
    assert("Size (".spec_bytes() =~= SIZE_OPEN()); assert("$NetBSD$".spec_bytes() =~= NETBSD_ID()); assert("\n\n".spec_bytes() =~= seq![0x0au8, 0x0au8]);
}

//@ extract src/distinfo.rs : fn push_checksum_line
//@ rewrite D8.format_digest_open D8.format_close_hash D6.path_as_bytes
fn push_checksum_line(bytes: &mut Vec<u8>, filename: &Path, c: &Checksum)
    ensures final(bytes)@ == old(bytes)@ + sum_line(pab(filename), c.digest, c.hash@)
{
    bytes.extend_from_slice(format!("{} (", c.digest).as_bytes());
    bytes.extend_from_slice(filename.as_os_str().as_bytes());
    bytes.extend_from_slice(format!(") = {}\n", c.hash).as_bytes());
    proof { assert(bytes@ =~= old(bytes)@ + sum_line(pab(filename), c.digest, c.hash@)); }
}
//@ end
//@ extract src/distinfo.rs : fn push_size_line
//@ rewrite D8.format_close_size D6.path_as_bytes
fn push_size_line(bytes: &mut Vec<u8>, filename: &Path, size: u64)
    ensures final(bytes)@ == old(bytes)@ + size_line(pab(filename), size as int)
{
    proof { lemma_print_lits(); }
    bytes.extend_from_slice("Size (".as_bytes());
    bytes.extend_from_slice(filename.as_os_str().as_bytes());
    bytes.extend_from_slice(format!(") = {} bytes\n", size).as_bytes());
    proof { assert(bytes@ =~= old(bytes)@ + size_line(pab(filename), size as int)); }
}
//@ end

impl Entry {
//@ extract src/distinfo.rs : impl Entry fn as_bytes
    pub fn as_bytes(&self) -> (r: Vec<u8>)
        ensures r@ == entry_block(entry_v(*self), true)
    {
        let mut bytes = Vec::new();
        let ghost ev = entry_v(*self);
        for c in it: &self.checksums
            invariant
                ev == entry_v(*self),
                it.snapshot@.remaining().len() == self.checksums@.len(),
                forall|i: int| 0 <= i < self.checksums@.len() ==> *(#[trigger] it.snapshot@.remaining()[i]) == self.checksums@[i],
                bytes@ == sum_lines(ev.name, ev.sums, it.index@ as int),
        {
            proof { assert(ev.sums[it.index@ as int] == (c.digest, c.hash@)); }
            push_checksum_line(&mut bytes, &self.filename, c);
            proof { assert(bytes@ =~= sum_lines(ev.name, ev.sums, it.index@ + 1)); }
        }
        proof { assert(ev.sums.len() == self.checksums@.len()); }
        if let Some(size) = self.size {
            push_size_line(&mut bytes, &self.filename, size);
        }
        bytes
    }
//@ end
}
impl Distinfo {
//@ extract src/distinfo.rs : impl Distinfo fn rcsid
    pub fn rcsid(&self) -> (r: Option<&OsString>)
        ensures (match r { Some(s) => self.dv().rcsid == Some(osbs(s)), None => self.dv().rcsid is None })
    {
        match &self.rcsid {
            Some(s) => Some(s),
            None => None,
        }
    }
//@ end
//@ extract src/distinfo.rs : impl Distinfo fn as_bytes
//@ rewrite D6.imap_values D6.osstring_as_bytes
    #[verifier::loop_isolation(true)]
    pub fn as_bytes(&self) -> (r: Vec<u8>)
        requires self.wf()
        ensures r@ == print_distinfo(self.dv())
    {
        proof { lemma_print_lits(); }
        let mut bytes = Vec::new();
        if let Some(s) = self.rcsid() {
            bytes.extend_from_slice(s.as_bytes());
        } else {
            bytes.extend_from_slice("$NetBSD$".as_bytes());
        }
        bytes.extend_from_slice("\n\n".as_bytes());
        let ghost head = bytes@;
        let ghost dvv = self.dv();
        for q in it: self.distfiles.values()
            invariant
                dvv == self.dv(),
                it.snapshot@.remaining().len() == dvv.dist.len(),
                forall|i: int| 0 <= i < dvv.dist.len() ==> entry_v(*(#[trigger] it.snapshot@.remaining()[i])) == dvv.dist[i],
                bytes@ == head + blocks(dvv.dist, it.index@ as int, true),
        {
            let ghost ev = entry_v(*q);
            let ghost b0 = bytes@;
            for c in it2: &q.checksums
                invariant
                    ev == entry_v(*q),
                    it2.snapshot@.remaining().len() == q.checksums@.len(),
                    forall|i: int| 0 <= i < q.checksums@.len() ==> *(#[trigger] it2.snapshot@.remaining()[i]) == q.checksums@[i],
                    bytes@ == b0 + sum_lines(ev.name, ev.sums, it2.index@ as int),
            {
                proof { assert(ev.sums[it2.index@ as int] == (c.digest, c.hash@)); }
                push_checksum_line(&mut bytes, &q.filename, c);
                proof { assert(bytes@ =~= b0 + sum_lines(ev.name, ev.sums, it2.index@ + 1)); }
            }
            if let Some(size) = q.size {
                push_size_line(&mut bytes, &q.filename, size);
            }
            proof {
                assert(ev.sums.len() == q.checksums@.len());
                assert(bytes@ == b0 + entry_block(ev, true));
                assert(blocks(dvv.dist, it.index@ + 1, true) == blocks(dvv.dist, it.index@ as int, true) + entry_block(dvv.dist[it.index@ as int], true));
                assert(bytes@ =~= head + blocks(dvv.dist, it.index@ + 1, true));
            }
        }
        let ghost mid = bytes@;
        for q in it: self.patchfiles.values()
            invariant
                dvv == self.dv(),
                it.snapshot@.remaining().len() == dvv.patch.len(),
                forall|i: int| 0 <= i < dvv.patch.len() ==> entry_v(*(#[trigger] it.snapshot@.remaining()[i])) == dvv.patch[i],
                bytes@ == mid + blocks(dvv.patch, it.index@ as int, false),
        {
            let ghost ev = entry_v(*q);
            let ghost b0 = bytes@;
            for c in it2: &q.checksums
                invariant
                    ev == entry_v(*q),
                    it2.snapshot@.remaining().len() == q.checksums@.len(),
                    forall|i: int| 0 <= i < q.checksums@.len() ==> *(#[trigger] it2.snapshot@.remaining()[i]) == q.checksums@[i],
                    bytes@ == b0 + sum_lines(ev.name, ev.sums, it2.index@ as int),
            {
                proof { assert(ev.sums[it2.index@ as int] == (c.digest, c.hash@)); }
                push_checksum_line(&mut bytes, &q.filename, c);
                proof { assert(bytes@ =~= b0 + sum_lines(ev.name, ev.sums, it2.index@ + 1)); }
            }
            proof {
                assert(ev.sums.len() == q.checksums@.len());
                assert(bytes@ == b0 + entry_block(ev, false));
                assert(blocks(dvv.patch, it.index@ + 1, false) == blocks(dvv.patch, it.index@ as int, false) + entry_block(dvv.patch[it.index@ as int], false));
                assert(bytes@ =~= mid + blocks(dvv.patch, it.index@ + 1, false));
            }
        }
        proof { assert(bytes@ =~= print_distinfo(dvv)); }
        bytes
    }
//@ end
}

// ================= verification against the file system (C12) =================
use std::fs::File;
use std::io::Read;
use std::io;
#[verifier::external_type_specification]
#[verifier::external_body]
pub struct ExFile(File);
//@ extract src/distinfo.rs : enum DistinfoError
//@ rewrite D12.drop_thiserror_attrs
pub enum DistinfoError {
    Io(io::Error),
    Digest(DigestError),
    NotFound,
    Checksum(PathBuf, Digest, String, String),
    MissingChecksum(PathBuf, Digest),
    Size(PathBuf, u64, u64),
    MissingSize(PathBuf),
}
//@ end
// D12: thiserror #[from] expansions
impl vstd::std_specs::convert::FromSpecImpl<io::Error> for DistinfoError {
    open spec fn obeys_from_spec() -> bool { true }
    open spec fn from_spec(e: io::Error) -> DistinfoError { DistinfoError::Io(e) }
}
impl From<io::Error> for DistinfoError { fn from(e: io::Error) -> DistinfoError { DistinfoError::Io(e) } }
impl vstd::std_specs::convert::FromSpecImpl<DigestError> for DistinfoError {
    open spec fn obeys_from_spec() -> bool { true }
    open spec fn from_spec(e: DigestError) -> DistinfoError { DistinfoError::Digest(e) }
}
impl From<DigestError> for DistinfoError { fn from(e: DigestError) -> DistinfoError { DistinfoError::Digest(e) } }

/// the world: length of the file at a path (None = the operation reports an I/O error) and what reading the file at a path delivers
pub uninterp spec fn w_len(path: Seq<u8>) -> Option<int>;
pub uninterp spec fn w_content(path: Seq<u8>) -> core::result::Result<Seq<u8>, ()>;
pub uninterp spec fn w_openable(path: Seq<u8>) -> bool;
/// statement of C12: that algorithm's digest of the file - for patch files: of the file with every line containing '$NetBSD' removed -
/// as lower-case hex (None: the file cannot be opened or read).  std_digest is the standard algorithm (C13: assumed of the external cores).
pub open spec fn w_digest(d: Digest, kind: EntryType, path: Seq<u8>) -> Option<Seq<char>> {
    if !w_openable(path) { None } else {
        match w_content(path) {
            Ok(b) => Some(hex_seq(std_digest(d, if kind == EntryType::Patchfile { patch_filter(b) } else { b }))),
            Err(_) => None,
        }
    }
}
pub uninterp spec fn fpath(f: &File) -> Seq<u8>;
#[verifier::external_body]
fn shim_file_open(path: &Path) -> (r: io::Result<File>)
    ensures r is Ok ==> fpath(&r->Ok_0) == pab(path) && w_openable(pab(path)) && stream_of(r->Ok_0) == w_content(pab(path)),
        r is Err ==> w_len(pab(path)) is None && !w_openable(pab(path))
{ File::open(path) }
#[verifier::external_body]
fn shim_file_len(f: &File) -> (r: io::Result<u64>)
    ensures (match w_len(fpath(f)) { Some(n) => r is Ok && r->Ok_0 == n, None => r is Err })
{ Ok(f.metadata()?.len()) }
#[verifier::external_trait_specification]
pub trait ExRead { type ExternalTraitSpecificationFor: std::io::Read; }
// the digest glue is proved in unit digest (C13); here only its contracts are used
impl Digest {
//@ import digest : impl Digest fn hash_file
//@ import digest : impl Digest fn hash_patch
}
#[verifier::external_body]
fn shim_string_ne(a: &String, b: &String) -> (r: bool) ensures r == (a@ != b@) { a != b }
#[verifier::external_body]
fn shim_digest_ne(a: &Digest, b: &Digest) -> (r: bool) ensures r == (*a != *b) { a != b }
pub assume_specification [<PathBuf as Clone>::clone] (p: &PathBuf) -> (r: PathBuf) ensures pbb(&r) == pbb(p);

/// index of the first recorded checksum of algorithm d at or after i
pub open spec fn first_sum(s: Seq<(Digest, Seq<char>)>, d: Digest, i: int) -> Option<int> decreases s.len() - i {
    if i < 0 || i >= s.len() { None } else if s[i].0 == d { Some(i) } else { first_sum(s, d, i + 1) }
}
// ---- path algebra (assumed, std::path): components of a path and the path made of components
pub uninterp spec fn pcomps(b: Seq<u8>) -> Seq<Seq<u8>>;
pub uninterp spec fn pfrom(cs: Seq<Seq<u8>>) -> Seq<u8>;
pub axiom fn axiom_pcomps_empty() ensures pcomps(Seq::<u8>::empty()) == Seq::<Seq<u8>>::empty();
pub axiom fn axiom_pfrom(cs: Seq<Seq<u8>>) ensures pcomps(pfrom(cs)) == cs;
/// path equality is equality of component sequences
pub axiom fn axiom_pkey_comps(b: Seq<u8>) ensures forall|c: Seq<u8>| (pkey(b) == pkey(c)) == (pcomps(b) == #[trigger] pcomps(c));
#[verifier::external_body]
fn shim_path_iter_rev<'a>(p: &'a Path) -> (r: Vec<&'a OsStr>)
    ensures r@.len() == pcomps(pab(p)).len(), forall|i: int| 0 <= i < r@.len() ==> osb(#[trigger] r@[i]) == pcomps(pab(p))[r@.len() - 1 - i]
{ p.iter().rev().collect() }
#[verifier::external_body]
fn shim_parent_is_none(p: &PathBuf) -> (r: bool)
    ensures r == (pcomps(pbb(p)).len() == 0)
{ p.parent().is_none() }
#[verifier::external_body]
fn shim_pathbuf_from(c: &OsStr) -> (r: PathBuf)
    ensures pbb(&r) == pfrom(seq![osb(c)])
{ PathBuf::from(c) }
#[verifier::external_body]
fn shim_pathbuf_join(c: &OsStr, f: PathBuf) -> (r: PathBuf)
    ensures pbb(&r) == pfrom(seq![osb(c)] + pcomps(pbb(&f)))
{ PathBuf::from(c).join(f) }
/// the shortest recorded trailing sub-path: smallest k >= from such that the last k components are a recorded name
pub open spec fn found_at(m: Seq<(Seq<u8>, Entry)>, comps: Seq<Seq<u8>>, from: int) -> Option<(int, int)> decreases comps.len() - from + 1 {
    if from < 1 || from > comps.len() { None }
    else {
        let i = find_key(m, pfrom(comps.skip(comps.len() - from)));
        if i >= 0 { Some((from, i)) } else { found_at(m, comps, from + 1) }
    }
}

/// statement of C12 for one entry: size verification succeeds exactly when a size is recorded and the file's length equals it
pub open spec fn size_outcome(e: Entry, path: Seq<u8>, r: Result<u64, DistinfoError>) -> bool {
    match e.size {
        Some(size) => match w_len(path) {
            Some(n) => if n == size as int { r == Ok::<u64, DistinfoError>(size) }
                       else { r is Err && r->Err_0 is Size && pbb(&r->Err_0->Size_0) == pbb(&e.filename) && r->Err_0->Size_1 == size && r->Err_0->Size_2 == n },
            None => r is Err && r->Err_0 is Io,
        },
        None => r is Err && r->Err_0 is MissingSize && pbb(&r->Err_0->MissingSize_0) == path,
    }
}
/// ... and checksum verification for an algorithm succeeds exactly when the first recorded hash of that algorithm equals the digest of the file
/// (by the entry's kind), Checksum(name, algorithm, expected, actual) on a mismatch, MissingChecksum when none is recorded
pub open spec fn sum_outcome(e: Entry, path: Seq<u8>, digest: Digest, r: Result<Digest, DistinfoError>) -> bool {
    match first_sum(sums_v(e.checksums@), digest, 0) {
        None => r is Err && r->Err_0 is MissingChecksum && pbb(&r->Err_0->MissingChecksum_0) == path && r->Err_0->MissingChecksum_1 == digest,
        Some(k) => match w_digest(digest, e.filetype, path) {
            None => r is Err && (r->Err_0 is Io || r->Err_0 is Digest),
            Some(actual) => if actual == e.checksums@[k].hash@ { r == Ok::<Digest, DistinfoError>(digest) }
                else { r is Err && r->Err_0 is Checksum && pbb(&r->Err_0->Checksum_0) == pbb(&e.filename) && r->Err_0->Checksum_1 == digest
                       && r->Err_0->Checksum_2@ == e.checksums@[k].hash@ && r->Err_0->Checksum_3@ == actual },
        },
    }
}
/// Distinfo::insert: an entry whose (path-equal) name is already present replaces that entry in place and false is returned; otherwise it is appended and true is returned
pub open spec fn ins_spec(m0: Seq<(Seq<u8>, Entry)>, entry: Entry, m1: Seq<(Seq<u8>, Entry)>, r: bool) -> bool {
    let i = find_key(m0, pbb(&entry.filename));
    if i >= 0 { !r && m1 == m0.update(i, (m0[i].0, entry)) } else { r && m1 == m0.push((pbb(&entry.filename), entry)) }
}
/// the entry a lookup path denotes: the one recorded under the SHORTEST trailing sub-path, in the map chosen by the path's classification
pub open spec fn lookup(d: &Distinfo, path: Seq<u8>) -> Option<Entry> {
    let m = if class_of(path) == EntryType::Patchfile { d.pmap() } else { d.dmap() };
    match found_at(m, pcomps(path), 1) { Some((k, i)) => Some(m[i].1), None => None }
}

impl Entry {
//@ extract src/distinfo.rs : impl Entry fn verify_size
//@ rewrite D9.generic_path_param D6.file_open_q D6.file_metadata_len_q
    pub fn verify_size<P: AsRef<Path>>(
        &self,
        path: P,
    ) -> (r: Result<u64, DistinfoError>)
        ensures size_outcome(*self, pab(path), r)
    {
        if let Some(size) = self.size {
            let f = File::open(path)?;
            let fsize = f.metadata()?.len();
            if fsize != size {
                return Err(DistinfoError::Size(
                    self.filename.clone(),
                    size,
                    fsize,
                ));
            } else {
                return Ok(size);
            }
        }
        Err(DistinfoError::MissingSize(path.as_ref().to_path_buf()))
    }
//@ end
//@ extract src/distinfo.rs : impl Entry fn verify_checksum_internal
//@ rewrite D9.generic_path_param D1.for_self_checksums_while D6.digest_ne D6.file_open_q D6.hash_file_q D6.hash_patch_q D6.string_ne_field
    fn verify_checksum_internal<P: AsRef<Path>>(
        &self,
        path: P,
        digest: Digest,
    ) -> (r: Result<Digest, DistinfoError>)
        ensures sum_outcome(*self, pab(path), digest, r)
    {
        let mut __i_c: usize = 0;
        while __i_c < self.checksums.len()
            invariant __i_c <= self.checksums@.len(),
                first_sum(sums_v(self.checksums@), digest, __i_c as int) == first_sum(sums_v(self.checksums@), digest, 0),
            decreases self.checksums@.len() - __i_c
        {
            let c = &self.checksums[__i_c];
            proof { assert(sums_v(self.checksums@)[__i_c as int] == (c.digest, c.hash@)); }
            __i_c += 1;
            if digest != c.digest {
                continue;
            }
            let mut f = File::open(path)?;
            let hash = match self.filetype {
                EntryType::Distfile => c.digest.hash_file(&mut f)?,
                EntryType::Patchfile => c.digest.hash_patch(&mut f)?,
            };
            if hash != c.hash {
                return Err(DistinfoError::Checksum(
                    self.filename.clone(),
                    c.digest,
                    c.hash.clone(),
                    hash,
                ));
            } else {
                return Ok(digest);
            }
        }
        Err(DistinfoError::MissingChecksum(
            path.as_ref().to_path_buf(),
            digest,
        ))
    }
//@ end
//@ extract src/distinfo.rs : impl Entry fn verify_checksum
//@ rewrite D9.generic_path_param
    pub fn verify_checksum<P: AsRef<Path>>(
        &self,
        path: P,
        digest: Digest,
    ) -> (r: Result<Digest, DistinfoError>)
        ensures sum_outcome(*self, pab(path), digest, r)
    {
        self.verify_checksum_internal(path, digest)
    }
//@ end
//@ extract src/distinfo.rs : impl Entry fn verify_checksums
//@ rewrite D9.generic_path_param
    pub fn verify_checksums<P: AsRef<Path>>(
        &self,
        path: P,
    ) -> (r: Vec<Result<Digest, DistinfoError>>)
        ensures r@.len() == self.checksums@.len(), forall|j: int| 0 <= j < r@.len() ==> sum_outcome(*self, pab(path), self.checksums@[j].digest, #[trigger] r@[j])
    {
        let mut results = vec![];
        for c in it: &self.checksums
            invariant
                it.snapshot@.remaining().len() == self.checksums@.len(),
                forall|i: int| 0 <= i < self.checksums@.len() ==> *(#[trigger] it.snapshot@.remaining()[i]) == self.checksums@[i],
                results@.len() == it.index@,
                forall|j: int| 0 <= j < results@.len() ==> sum_outcome(*self, pab(path), self.checksums@[j].digest, #[trigger] results@[j]),
        {
            results
                .push(self.verify_checksum_internal(path.as_ref(), c.digest));
        }
        results
    }
//@ end
//@ extract src/distinfo.rs : impl Entry fn new
//@ rewrite D9.generic_path_params2
    pub fn new<P1, P2>(
        filename: P1,
        filepath: P2,
        checksums: Vec<Checksum>,
        size: Option<u64>,
    ) -> (r: Entry)
    where
        P1: AsRef<Path>,
        P2: AsRef<Path>,
        ensures pbb(&r.filename) == pab(filename), pbb(&r.filepath) == pab(filepath), r.checksums == checksums, r.size == size, r.filetype == class_of(pab(filename))
    {
        let filetype = EntryType::from(filename.as_ref());
        Entry {
            filename: filename.as_ref().to_path_buf(),
            filepath: filepath.as_ref().to_path_buf(),
            checksums,
            size,
            filetype,
        }
    }
//@ end
}
impl Distinfo {
//@ extract src/distinfo.rs : impl Distinfo fn get_distfile
//@ rewrite D9.generic_path_param
    pub fn get_distfile<P: AsRef<Path>>(&self, path: P) -> (r: Option<&Entry>)
        ensures (match r { Some(e) => find_key(self.dmap(), pab(path)) >= 0 && *e == self.dmap()[find_key(self.dmap(), pab(path))].1,
                           None => find_key(self.dmap(), pab(path)) < 0 })
    {
        self.distfiles.get(path.as_ref())
    }
//@ end
//@ extract src/distinfo.rs : impl Distinfo fn get_patchfile
//@ rewrite D9.generic_path_param
    pub fn get_patchfile<P: AsRef<Path>>(&self, path: P) -> (r: Option<&Entry>)
        ensures (match r { Some(e) => find_key(self.pmap(), pab(path)) >= 0 && *e == self.pmap()[find_key(self.pmap(), pab(path))].1,
                           None => find_key(self.pmap(), pab(path)) < 0 })
    {
        self.patchfiles.get(path.as_ref())
    }
//@ end
//@ extract src/distinfo.rs : impl Distinfo fn find_entry
//@ rewrite D9.generic_path_param D6.path_iter_rev D6.parent_is_none D6.pathbuf_from_join D6.pathbuf_from_component
    pub fn find_entry<P: AsRef<Path>>(
        &self,
        path: P,
    ) -> (r: Result<&Entry, DistinfoError>)
        requires self.wf()
        ensures (match found_at(if class_of(pab(path)) == EntryType::Patchfile { self.pmap() } else { self.dmap() }, pcomps(pab(path)), 1) {
            Some((k, i)) => r is Ok && *r->Ok_0 == (if class_of(pab(path)) == EntryType::Patchfile { self.pmap() } else { self.dmap() })[i].1,
            None => r is Err && r->Err_0 is NotFound,
        })
    {
        let filetype = EntryType::from(path.as_ref());
        let mut file = PathBuf::new();
        let ghost comps = pcomps(pab(path));
        let ghost m = if class_of(pab(path)) == EntryType::Patchfile { self.pmap() } else { self.dmap() };
        proof { axiom_pcomps_empty(); assert(comps.skip(comps.len() as int) =~= Seq::<Seq<u8>>::empty()); }
        for component in it: path.as_ref().iter().rev()
            invariant
                comps == pcomps(pab(path)), filetype == class_of(pab(path)),
                m == (if class_of(pab(path)) == EntryType::Patchfile { self.pmap() } else { self.dmap() }),
                it.snapshot@.remaining().len() == comps.len(),
                forall|i: int| 0 <= i < comps.len() ==> osb(#[trigger] it.snapshot@.remaining()[i]) == comps[comps.len() - 1 - i],
                pcomps(pbb(&file)) == comps.skip(comps.len() - it.index@),
                found_at(m, comps, it.index@ + 1) == found_at(m, comps, 1),
        {
            let ghost k = it.index@ as int;
            proof { axiom_pfrom(seq![osb(component)]); axiom_pfrom(seq![osb(component)] + pcomps(pbb(&file))); }
            if file.parent().is_none() {
                file = PathBuf::from(component);
            } else {
                file = PathBuf::from(component).join(file);
            }
            proof {
                assert(pcomps(pbb(&file)) =~= comps.skip(comps.len() - (k + 1)));
                axiom_pkey_comps(pbb(&file));
            }
            match filetype {
                EntryType::Distfile => {
                    if let Some(entry) = self.get_distfile(&file) {
                        return Ok(entry);
                    }
                }
                EntryType::Patchfile => {
                    if let Some(entry) = self.get_patchfile(&file) {
                        return Ok(entry);
                    }
                }
            }
        }
        Err(DistinfoError::NotFound)
    }
//@ end
//@ extract src/distinfo.rs : impl Distinfo fn verify_size
//@ rewrite D9.generic_path_param
    pub fn verify_size<P: AsRef<Path>>(
        &self,
        path: P,
    ) -> (r: Result<u64, DistinfoError>)
        requires self.wf()
        ensures (match lookup(self, pab(path)) { Some(e) => size_outcome(e, pab(path), r), None => r is Err && r->Err_0 is NotFound })
    {
        let entry = self.find_entry(path.as_ref())?;
        entry.verify_size(path)
    }
//@ end
//@ extract src/distinfo.rs : impl Distinfo fn verify_checksum
//@ rewrite D9.generic_path_param
    pub fn verify_checksum<P: AsRef<Path>>(
        &self,
        path: P,
        digest: Digest,
    ) -> (r: Result<Digest, DistinfoError>)
        requires self.wf()
        ensures (match lookup(self, pab(path)) { Some(e) => sum_outcome(e, pab(path), digest, r), None => r is Err && r->Err_0 is NotFound })
    {
        let entry = self.find_entry(path.as_ref())?;
        entry.verify_checksum_internal(path, digest)
    }
//@ end
//@ extract src/distinfo.rs : impl Distinfo fn verify_checksums
//@ rewrite D9.generic_path_param
    pub fn verify_checksums<P: AsRef<Path>>(
        &self,
        path: P,
    ) -> (r: Vec<Result<Digest, DistinfoError>>)
        requires self.wf()
        ensures (match lookup(self, pab(path)) {
            Some(e) => r@.len() == e.checksums@.len() && forall|j: int| 0 <= j < r@.len() ==> sum_outcome(e, pab(path), e.checksums@[j].digest, #[trigger] r@[j]),
            None => r@.len() == 1 && r@[0] is Err && r@[0]->Err_0 is NotFound,
        })
    {
        let entry = match self.find_entry(path.as_ref()) {
            Ok(entry) => entry,
            Err(e) => return vec![Err(e)],
        };
        let mut results = vec![];
        for c in it: &entry.checksums
            invariant
                lookup(self, pab(path)) == Some(*entry),
                it.snapshot@.remaining().len() == entry.checksums@.len(),
                forall|i: int| 0 <= i < entry.checksums@.len() ==> *(#[trigger] it.snapshot@.remaining()[i]) == entry.checksums@[i],
                results@.len() == it.index@,
                forall|j: int| 0 <= j < results@.len() ==> sum_outcome(*entry, pab(path), entry.checksums@[j].digest, #[trigger] results@[j]),
        {
            results
                .push(entry.verify_checksum_internal(path.as_ref(), c.digest));
        }
        results
    }
//@ end
//@ extract src/distinfo.rs : impl Distinfo fn calculate_size
//@ rewrite D9.generic_path_param D6.file_open_q D6.file_metadata_len_q_file
    pub fn calculate_size<P: AsRef<Path>>(
        path: P,
    ) -> (r: Result<u64, DistinfoError>)
        ensures (match w_len(pab(path)) { Some(n) => r == Ok::<u64, DistinfoError>(n as u64) && n == (n as u64) as int, None => r is Err && r->Err_0 is Io })
    {
        let file = File::open(path)?;
        Ok(file.metadata()?.len())
    }
//@ end
//@ extract src/distinfo.rs : impl Distinfo fn calculate_checksum
//@ rewrite D9.generic_path_param D6.file_open_q D6.hash_file_q_digest D6.hash_patch_q_digest
    pub fn calculate_checksum<P: AsRef<Path>>(
        path: P,
        digest: Digest,
    ) -> (r: Result<String, DistinfoError>)
        ensures (match w_digest(digest, class_of(pab(path)), pab(path)) { Some(h) => r is Ok && r->Ok_0@ == h, None => r is Err && (r->Err_0 is Io || r->Err_0 is Digest) })
    {
        let filetype = EntryType::from(path.as_ref());
        let mut f = File::open(path)?;
        match filetype {
            EntryType::Distfile => Ok(digest.hash_file(&mut f)?),
            EntryType::Patchfile => Ok(digest.hash_patch(&mut f)?),
        }
    }
//@ end
//@ extract src/distinfo.rs : impl Distinfo fn insert
    pub fn insert(&mut self, entry: Entry) -> (r: bool)
        ensures
            entry.filetype == EntryType::Distfile ==> final(self).pmap() == old(self).pmap() && ins_spec(old(self).dmap(), entry, final(self).dmap(), r),
            entry.filetype == EntryType::Patchfile ==> final(self).dmap() == old(self).dmap() && ins_spec(old(self).pmap(), entry, final(self).pmap(), r),
            final(self).dv().rcsid == old(self).dv().rcsid,
    {
        let map = match entry.filetype {
            EntryType::Distfile => &mut self.distfiles,
            EntryType::Patchfile => &mut self.patchfiles,
        };
        map.insert(entry.filename.clone(), entry).is_none()
    }
//@ end
//@ extract src/distinfo.rs : impl Distinfo fn set_rcsid
    pub fn set_rcsid(&mut self, rcsid: &OsString)
        ensures final(self).dv() == (DistinfoV { rcsid: Some(osbs(rcsid)), ..old(self).dv() }), final(self).dmap() == old(self).dmap(), final(self).pmap() == old(self).pmap(),
            old(self).wf() ==> final(self).wf()
    {
        self.rcsid = Some(rcsid.clone());
    }
//@ end
//@ extract src/distinfo.rs : impl Distinfo fn distfiles
//@ rewrite D6.imap_values_collect
    pub fn distfiles(&self) -> (r: Vec<&Entry>)
        ensures r@.len() == self.dmap().len(), forall|i: int| 0 <= i < r@.len() ==> *(#[trigger] r@[i]) == self.dmap()[i].1
    {
        self.distfiles.values().collect()
    }
//@ end
//@ extract src/distinfo.rs : impl Distinfo fn patchfiles
//@ rewrite D6.imap_values_collect
    pub fn patchfiles(&self) -> (r: Vec<&Entry>)
        ensures r@.len() == self.pmap().len(), forall|i: int| 0 <= i < r@.len() ==> *(#[trigger] r@[i]) == self.pmap()[i].1
    {
        self.patchfiles.values().collect()
    }
//@ end
}

/// byte-string literals used by Line::from_bytes
pub proof fn reveal_strlit_bytes() { }
pub proof fn lemma_nonempty_step(v: Seq<&[u8]>, i: int)
    requires 0 <= i < v.len()
    ensures nonempty_views(v, i + 1) == (if v[i]@.len() == 0 { nonempty_views(v, i) } else { nonempty_views(v, i).push(v[i]@) })
{
}
pub proof fn lemma_nonempty_mono(v: Seq<&[u8]>, i: int, j: int)
    requires 0 <= i <= j <= v.len()
    ensures nonempty_views(v, i).is_prefix_of(nonempty_views(v, j))
    decreases j - i
{
    if i < j {
        lemma_nonempty_mono(v, i, j - 1);
        lemma_nonempty_step(v, j - 1);
    }
}

//@ include lib/distinfo_roundtrip.rs

} // verus!
fn main() {}
