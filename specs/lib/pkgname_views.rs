// lib/pkgname_views.rs -- PkgName type (extracted) + statement-level decomposition spec + views
//@ extract src/pkgname.rs : struct PkgName
pub struct PkgName {
    pkgname: String,
    pkgbase: String,
    pkgversion: String,
    pkgrevision: Option<i64>,
}
//@ end

/// version == p ++ "nb" ++ ds with ds 1..18 digits
pub open spec fn ends_in_nb_digits(v: Seq<char>, ds: Seq<char>) -> bool {
    1 <= ds.len() <= 18 && all_digits(ds) && v.len() >= 2 + ds.len()
    && v.skip(v.len() - ds.len()) == ds
    && v.subrange(v.len() - ds.len() - 2, v.len() - ds.len()) == L_nb()
}
pub open spec fn ends_in_bare_nb(v: Seq<char>) -> bool { v.len() >= 2 && v.skip(v.len() - 2) == L_nb() }
pub open spec fn has_nb(v: Seq<char>) -> bool { exists|j: int| 0 <= j && j + 2 <= v.len() && #[trigger] v[j] == 'n' && v[j + 1] == 'b' }

impl PkgName {
    pub closed spec fn name(&self) -> Seq<char> { self.pkgname@ }
    pub closed spec fn base(&self) -> Seq<char> { self.pkgbase@ }
    pub closed spec fn version(&self) -> Seq<char> { self.pkgversion@ }
    pub closed spec fn revision(&self) -> Option<i64> { self.pkgrevision }
}
