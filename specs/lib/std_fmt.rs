// lib/std_fmt.rs -- fmt::Formatter as an output sink with an uninterpreted text (vstd owns the type; trusted base S-fmt)
/// the characters written to a Formatter so far
pub uninterp spec fn fout(f: &fmt::Formatter) -> Seq<char>;
// shim D8.write_lit / D8.formatter_write_str: Formatter::write_str
#[verifier::external_body]
fn shim_fmt_str(f: &mut fmt::Formatter, s: &str) -> (r: fmt::Result)
    ensures r is Ok ==> fout(final(f)) == fout(old(f)) + s@
{ f.write_str(s) }
