// lib/plist_spec.rs -- statement-level specification of PLIST parsing (C14) and queries (C15)

/// whitespace byte: ASCII blank or control whitespace (9..13, 32)
pub open spec fn ws(c: u8) -> bool { c == 32u8 || (9u8 <= c && c <= 13u8) }

// ---------------- C14: non-blank lines ----------------
pub open spec fn line_end(b: Seq<u8>, from: int) -> int
    decreases b.len() - from
{
    if from >= b.len() { b.len() as int } else if b[from] == 10u8 { from } else { line_end(b, from + 1) }
}
pub open spec fn has_nonws(b: Seq<u8>, s: int, e: int) -> bool { exists|i: int| s <= i < e && !ws(#[trigger] b[i]) }
/// (start, end) of every '\n'-separated segment containing a non-whitespace byte, in order
pub open spec fn ranges(b: Seq<u8>, from: int) -> Seq<(usize, usize)>
    decreases b.len() - from
{
    if from < 0 || from >= b.len() { seq![] } else {
        let e = line_end(b, from);
        let head = if has_nonws(b, from, e) { seq![(from as usize, e as usize)] } else { seq![] };
        if from <= e < b.len() { head + ranges(b, e + 1) } else { head }
    }
}
pub proof fn lemma_line_end(b: Seq<u8>, from: int)
    requires 0 <= from <= b.len()
    ensures from <= line_end(b, from) <= b.len(),
        forall|i: int| from <= i < line_end(b, from) ==> b[i] != 10u8,
        line_end(b, from) < b.len() ==> b[line_end(b, from)] == 10u8,
    decreases b.len() - from
{
    if from < b.len() && b[from] != 10u8 { lemma_line_end(b, from + 1); }
}
pub proof fn lemma_line_end_unique(b: Seq<u8>, from: int, e: int)
    requires 0 <= from <= e <= b.len(), forall|i: int| from <= i < e ==> b[i] != 10u8, e < b.len() ==> b[e] == 10u8
    ensures line_end(b, from) == e
    decreases e - from
{
    if from < e { lemma_line_end_unique(b, from + 1, e); }
}

// ---------------- entries ----------------
pub enum EV {
    File(Seq<u8>), Cwd(Seq<u8>), Exec(Seq<u8>), UnExec(Seq<u8>), Mode(Option<Seq<char>>), PkgOptPreserve,
    Owner(Option<Seq<char>>), Group(Option<Seq<char>>), Comment(Option<Seq<u8>>), Ignore, Name(Seq<char>),
    PkgDir(Seq<u8>), DirRm(Seq<u8>), Display(Seq<u8>), PkgDep(Seq<char>), BldDep(Seq<char>), PkgCfl(Seq<char>),
}

// ---------------- C15: queries as index sequences into the entry list ----------------
/// file entries not preceded (since the previous file entry or the start) by an @ignore
pub open spec fn kept_files(es: Seq<EV>, from: int, ignore: bool) -> Seq<int>
    decreases es.len() - from
{
    if from < 0 || from >= es.len() { seq![] } else {
        match es[from] {
            EV::Ignore => kept_files(es, from + 1, true),
            EV::File(_) => if ignore { kept_files(es, from + 1, false) } else { seq![from] + kept_files(es, from + 1, false) },
            _ => kept_files(es, from + 1, ignore),
        }
    }
}
pub open spec fn is_install_cmd(e: EV) -> bool {
    e is Cwd || e is Exec || e is Mode || e is Owner || e is Group || e is PkgDir
}
pub open spec fn is_uninstall_cmd(e: EV) -> bool {
    e is Cwd || e is UnExec || e is Mode || e is Owner || e is Group || e is PkgDir || e is DirRm
}
/// kept files plus the commands selected by `sel`, in original order (sel: 1 install, 2 uninstall)
pub open spec fn cmds(es: Seq<EV>, from: int, ignore: bool, sel: int) -> Seq<int>
    decreases es.len() - from
{
    if from < 0 || from >= es.len() { seq![] } else {
        match es[from] {
            EV::Ignore => cmds(es, from + 1, true, sel),
            EV::File(_) => if ignore { cmds(es, from + 1, false, sel) } else { seq![from] + cmds(es, from + 1, false, sel) },
            e => if (sel == 1 && is_install_cmd(e)) || (sel == 2 && is_uninstall_cmd(e)) { seq![from] + cmds(es, from + 1, ignore, sel) }
                 else { cmds(es, from + 1, ignore, sel) },
        }
    }
}
/// the most recent @cwd directory before index i (empty if none yet)
pub open spec fn cwd_at(es: Seq<EV>, i: int) -> Seq<u8>
    decreases i
{
    if i <= 0 || i > es.len() { Seq::<u8>::empty() } else {
        match es[i - 1] { EV::Cwd(d) => d, _ => cwd_at(es, i - 1) }
    }
}
pub open spec fn prefixed(dir: Seq<u8>, file: Seq<u8>) -> Seq<u8> {
    if dir.len() > 0 && dir.last() == 0x2Fu8 { dir + file } else { dir + seq![0x2Fu8] + file }
}
/// indices of entries of one kind (k: 1 PkgDep, 2 BldDep, 3 PkgCfl, 4 PkgDir, 5 DirRm, 6 Name, 7 Display, 8 PkgOpt preserve)
pub open spec fn is_kind(e: EV, k: int) -> bool {
    (k == 1 && e is PkgDep) || (k == 2 && e is BldDep) || (k == 3 && e is PkgCfl) || (k == 4 && e is PkgDir)
    || (k == 5 && e is DirRm) || (k == 6 && e is Name) || (k == 7 && e is Display) || (k == 8 && e is PkgOptPreserve)
}
pub open spec fn of_kind(es: Seq<EV>, from: int, k: int) -> Seq<int>
    decreases es.len() - from
{
    if from < 0 || from >= es.len() { seq![] }
    else if is_kind(es[from], k) { seq![from] + of_kind(es, from + 1, k) }
    else { of_kind(es, from + 1, k) }
}

/// the file entries inside an install / uninstall list are exactly the kept files (agreement, C15)
pub open spec fn only_files(es: Seq<EV>, idx: Seq<int>) -> Seq<int> { idx.filter(|i: int| 0 <= i < es.len() && es[i] is File) }
pub proof fn lemma_cmds_files(es: Seq<EV>, from: int, ignore: bool, sel: int)
    requires 0 <= from <= es.len(), sel == 1 || sel == 2
    ensures only_files(es, cmds(es, from, ignore, sel)) == kept_files(es, from, ignore),
        forall|j: int| 0 <= j < cmds(es, from, ignore, sel).len() ==> from <= #[trigger] cmds(es, from, ignore, sel)[j] < es.len(),
    decreases es.len() - from
{
    let p = |i: int| 0 <= i < es.len() && es[i] is File;
    if from < es.len() {
        match es[from] {
            EV::Ignore => { lemma_cmds_files(es, from + 1, true, sel); }
            EV::File(_) => {
                lemma_cmds_files(es, from + 1, false, sel);
                if !ignore {
                    let rest = cmds(es, from + 1, false, sel);
                    assert((seq![from] + rest).filter(p) =~= seq![from].filter(p) + rest.filter(p)) by { Seq::<int>::filter_distributes_over_add(seq![from], rest, p); }  // hint
                    lemma_filter_single(from, p);
                }
            }
            e => {
                lemma_cmds_files(es, from + 1, ignore, sel);
                if (sel == 1 && is_install_cmd(e)) || (sel == 2 && is_uninstall_cmd(e)) {
                    let rest = cmds(es, from + 1, ignore, sel);
                    assert((seq![from] + rest).filter(p) =~= seq![from].filter(p) + rest.filter(p)) by { Seq::<int>::filter_distributes_over_add(seq![from], rest, p); }
                    lemma_filter_single(from, p);
                }
            }
        }
    } else {
        assert(Seq::<int>::empty().filter(p) =~= Seq::<int>::empty()) by { reveal(Seq::filter); }
    }
}
pub proof fn lemma_filter_single(x: int, p: spec_fn(int) -> bool)
    ensures seq![x].filter(p) == (if p(x) { seq![x] } else { Seq::<int>::empty() })
{
    reveal_with_fuel(Seq::filter, 2);
    assert(seq![x].drop_last() =~= Seq::<int>::empty());
    assert(seq![x].filter(p) =~= (if p(x) { seq![x] } else { Seq::<int>::empty() }));
}

// ---------------- C14: one entry per line: the command table ----------------
pub enum PErr { Unsupported, Incorrect, Utf8 }
pub open spec fn first_space(b: Seq<u8>) -> int { first_byte(b, 32u8) }
/// first index >= from holding a non-whitespace byte (or len)
pub open spec fn skip_ws(b: Seq<u8>, from: int) -> int decreases b.len() - from {
    if from < 0 || from >= b.len() { b.len() as int } else if ws(b[from]) { skip_ws(b, from + 1) } else { from }
}
pub open spec fn cmd_of(b: Seq<u8>) -> Seq<u8> { if first_space(b) >= 0 { b.take(first_space(b)) } else { b } }
/// bytes after the first space with leading blanks stripped; None when there is nothing
pub open spec fn arg_of(b: Seq<u8>) -> Option<Seq<u8>> {
    let sp = first_space(b);
    if sp <= 0 || sp + 1 >= b.len() { None }
    else if skip_ws(b, sp) >= b.len() { None }
    else { Some(b.skip(skip_ws(b, sp))) }
}
pub open spec fn lit(s: Seq<char>) -> Seq<u8> { encode_utf8(s) }
pub open spec fn req_os(a: Option<Seq<u8>>, k: int) -> core::result::Result<EV, PErr> {
    match a {
        None => Err(PErr::Incorrect),
        Some(x) => Ok(if k == 1 { EV::Cwd(x) } else if k == 2 { EV::Exec(x) } else if k == 3 { EV::UnExec(x) }
                      else if k == 4 { EV::PkgDir(x) } else if k == 5 { EV::DirRm(x) } else { EV::Display(x) }),
    }
}
pub open spec fn req_str(a: Option<Seq<u8>>, k: int) -> core::result::Result<EV, PErr> {
    match a {
        None => Err(PErr::Incorrect),
        Some(x) => if valid_utf8(x) {
            Ok(if k == 1 { EV::Name(decode_utf8(x)) } else if k == 2 { EV::PkgDep(decode_utf8(x)) } else if k == 3 { EV::BldDep(decode_utf8(x)) } else { EV::PkgCfl(decode_utf8(x)) })
        } else { Err(PErr::Utf8) },
    }
}
pub open spec fn opt_str(a: Option<Seq<u8>>, k: int) -> core::result::Result<EV, PErr> {
    match a {
        None => Ok(if k == 1 { EV::Mode(None) } else if k == 2 { EV::Owner(None) } else { EV::Group(None) }),
        Some(x) => if valid_utf8(x) {
            Ok(if k == 1 { EV::Mode(Some(decode_utf8(x))) } else if k == 2 { EV::Owner(Some(decode_utf8(x))) } else { EV::Group(Some(decode_utf8(x))) })
        } else { Err(PErr::Utf8) },
    }
}
/// what parsing one line gives (statement of C14: command table with required / optional / forbidden argument rule)
pub open spec fn entry_spec(b: Seq<u8>) -> core::result::Result<EV, PErr> {
    let cmd = cmd_of(b);
    let a = arg_of(b);
    if cmd.len() > 0 && cmd[0] == 0x40u8 {
        if cmd == lit("@cwd"@) || cmd == lit("@src"@) || cmd == lit("@cd"@) { req_os(a, 1) }
        else if cmd == lit("@exec"@) { req_os(a, 2) }
        else if cmd == lit("@unexec"@) { req_os(a, 3) }
        else if cmd == lit("@option"@) {
            match a {
                Some(x) => if valid_utf8(x) { if x == lit("preserve"@) { Ok(EV::PkgOptPreserve) } else { Err(PErr::Unsupported) } } else { Err(PErr::Incorrect) },
                None => Err(PErr::Incorrect),
            }
        }
        else if cmd == lit("@mode"@) { opt_str(a, 1) }
        else if cmd == lit("@owner"@) { opt_str(a, 2) }
        else if cmd == lit("@group"@) { opt_str(a, 3) }
        else if cmd == lit("@comment"@) { Ok(EV::Comment(a)) }
        else if cmd == lit("@ignore"@) { match a { Some(_) => Err(PErr::Incorrect), None => Ok(EV::Ignore) } }
        else if cmd == lit("@name"@) { req_str(a, 1) }
        else if cmd == lit("@pkgdep"@) { req_str(a, 2) }
        else if cmd == lit("@blddep"@) { req_str(a, 3) }
        else if cmd == lit("@pkgcfl"@) { req_str(a, 4) }
        else if cmd == lit("@pkgdir"@) { req_os(a, 4) }
        else if cmd == lit("@dirrm"@) { req_os(a, 5) }
        else if cmd == lit("@display"@) { req_os(a, 6) }
        else { Err(PErr::Unsupported) }
    } else {
        Ok(EV::File(b))
    }
}
