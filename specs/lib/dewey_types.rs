// lib/dewey_types.rs -- the data types of src/dewey.rs, extracted from /repo on every run
// derive(Clone) of the field-less enum written out (D12: Verus gives a derived Clone no specification)
impl Clone for DeweyOp {
    fn clone(&self) -> (r: Self) ensures r == *self {
        match self { DeweyOp::LE => DeweyOp::LE, DeweyOp::LT => DeweyOp::LT, DeweyOp::GE => DeweyOp::GE, DeweyOp::GT => DeweyOp::GT }
    }
}
//@ extract src/dewey.rs : enum DeweyOp
#[derive(Debug, Eq, Hash, PartialEq)]
pub enum DeweyOp {
    LE,
    LT,
    GE,
    GT,
}
//@ end

//@ extract src/dewey.rs : struct DeweyVersion
#[derive(Debug, Eq, Hash, PartialEq)]
pub struct DeweyVersion {
    version: Vec<i64>,
    pkgrevision: i64,
}
//@ end


//@ extract src/dewey.rs : struct DeweyError
pub struct DeweyError {
    pub pos: usize,
    pub msg: &'static str,
}
//@ end

//@ extract src/dewey.rs : struct DeweyMatch
struct DeweyMatch {
    op: DeweyOp,
    version: DeweyVersion,
}
//@ end

//@ extract src/dewey.rs : struct Dewey
pub struct Dewey {
    pkgname: String,
    matches: Vec<DeweyMatch>,
}
//@ end
