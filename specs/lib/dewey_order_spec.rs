// lib/dewey_order_spec.rs -- comparison spec cmp3 (from the statement of C01/C03) and the order laws
// ---------- spec (from the property statement) ----------
/// component i of a version, missing components read as 0
pub open spec fn comp(v: Seq<int>, i: int) -> int { if 0 <= i < v.len() { v[i] } else { 0 } }

/// first index in [from, n) at which the zero-padded sequences differ, or n
pub open spec fn first_diff(a: Seq<int>, b: Seq<int>, from: int, n: int) -> int
    decreases n - from
{
    if from >= n { n } else if comp(a, from) != comp(b, from) { from } else { first_diff(a, b, from + 1, n) }
}
pub open spec fn maxlen(a: Seq<int>, b: Seq<int>) -> int { if a.len() >= b.len() { a.len() as int } else { b.len() as int } }

pub open spec fn sgn(x: int, y: int) -> int { if x < y { -1 } else if x > y { 1 } else { 0 } }

/// position-wise comparison, missing components read as 0, revision decides only on a full tie
pub open spec fn cmp3(a: Seq<int>, ra: int, b: Seq<int>, rb: int) -> int {
    let n = maxlen(a, b);
    let d = first_diff(a, b, 0, n);
    if d < n { sgn(comp(a, d), comp(b, d)) } else { sgn(ra, rb) }
}
pub open spec fn op_holds(op: DeweyOp, c: int) -> bool {
    match op { DeweyOp::GE => c >= 0, DeweyOp::GT => c > 0, DeweyOp::LE => c <= 0, DeweyOp::LT => c < 0 }
}

proof fn lemma_first_diff_props(a: Seq<int>, b: Seq<int>, from: int, n: int)
    requires 0 <= from <= n
    ensures from <= first_diff(a,b,from,n) <= n,
        forall|j: int| from <= j < first_diff(a,b,from,n) ==> comp(a,j) == comp(b,j),
        first_diff(a,b,from,n) < n ==> comp(a, first_diff(a,b,from,n)) != comp(b, first_diff(a,b,from,n)),
    decreases n - from
{
    if from < n && comp(a, from) == comp(b, from) { lemma_first_diff_props(a,b,from+1,n); }
}
proof fn lemma_first_diff_unique(a: Seq<int>, b: Seq<int>, n: int, d: int)
    requires 0 <= d <= n, forall|j: int| 0 <= j < d ==> comp(a,j) == comp(b,j), d < n ==> comp(a,d) != comp(b,d)
    ensures first_diff(a,b,0,n) == d
{
    lemma_first_diff_props(a,b,0,n);
    let f = first_diff(a,b,0,n);
    if f < d { assert(comp(a,f) == comp(b,f)); }
    if d < f { assert(comp(a,d) == comp(b,d)); }
}

// ---------- C03 laws over the spec (hold for every pair/triple of component vectors,
// hence for whatever DeweyVersion::new returns on any string) ----------
pub proof fn law_antisym(a: Seq<int>, ra: int, b: Seq<int>, rb: int)
    ensures cmp3(a,ra,b,rb) == -cmp3(b,rb,a,ra)
{
    let n = maxlen(a,b);
    lemma_first_diff_props(a,b,0,n);
    let d = first_diff(a,b,0,n);
    lemma_first_diff_unique(b,a,n,d);
}
pub proof fn law_refl(a: Seq<int>, ra: int)
    ensures cmp3(a,ra,a,ra) == 0,
        op_holds(DeweyOp::LE, cmp3(a,ra,a,ra)), op_holds(DeweyOp::GE, cmp3(a,ra,a,ra)),
{
    lemma_first_diff_unique(a,a,maxlen(a,a),maxlen(a,a));
}
/// exactly one of A<B, A>B, (A<=B and A>=B)
pub proof fn law_trichotomy(a: Seq<int>, ra: int, b: Seq<int>, rb: int)
    ensures ({
        let c = cmp3(a,ra,b,rb);
        let lt = op_holds(DeweyOp::LT, c); let gt = op_holds(DeweyOp::GT, c);
        let eq = op_holds(DeweyOp::LE, c) && op_holds(DeweyOp::GE, c);
        (lt || gt || eq) && !(lt && gt) && !(lt && eq) && !(gt && eq)
    })
{
}
/// A<=B is the negation of A>B, A>=B the negation of A<B
pub proof fn law_duality(a: Seq<int>, ra: int, b: Seq<int>, rb: int)
    ensures ({
        let c = cmp3(a,ra,b,rb);
        op_holds(DeweyOp::LE, c) == !op_holds(DeweyOp::GT, c) && op_holds(DeweyOp::GE, c) == !op_holds(DeweyOp::LT, c)
    })
{
}
pub open spec fn flip(op: DeweyOp) -> DeweyOp {
    match op { DeweyOp::GE => DeweyOp::LE, DeweyOp::GT => DeweyOp::LT, DeweyOp::LE => DeweyOp::GE, DeweyOp::LT => DeweyOp::GT }
}
/// the verdict is the same whichever version is in the pattern and whichever is the package's
pub proof fn law_swap_verdict(a: Seq<int>, ra: int, b: Seq<int>, rb: int, op: DeweyOp)
    ensures op_holds(op, cmp3(a,ra,b,rb)) == op_holds(flip(op), cmp3(b,rb,a,ra))
{
    law_antisym(a,ra,b,rb);
}
pub proof fn law_trans(a: Seq<int>, ra: int, b: Seq<int>, rb: int, c: Seq<int>, rc: int)
    requires cmp3(a,ra,b,rb) <= 0, cmp3(b,rb,c,rc) <= 0
    ensures cmp3(a,ra,c,rc) <= 0
{
    let nab = maxlen(a,b); let nbc = maxlen(b,c); let nac = maxlen(a,c);
    lemma_first_diff_props(a,b,0,nab);
    lemma_first_diff_props(b,c,0,nbc);
    lemma_first_diff_props(a,c,0,nac);
    let dab = first_diff(a,b,0,nab); let dbc = first_diff(b,c,0,nbc); let dac = first_diff(a,c,0,nac);
    assert(forall|j: int| j >= nab ==> comp(a,j) == comp(b,j));
    assert(forall|j: int| j >= nbc ==> comp(b,j) == comp(c,j));
    assert(forall|j: int| j >= nac ==> comp(a,j) == comp(c,j));
    if dac < nac {
        if dab < nab && dab <= dac {
            if dbc < nbc && dbc < dab { assert(comp(a,dbc) == comp(b,dbc)); assert(false); }
        }
    }
}

