// lib/digest_spec.rs -- specification vocabulary of digest hashing (C13), shared by units digest and distinfo (C12)
// ---------------- the external world ----------------
/// the digest the STANDARD algorithm `a` defines for `data` (uninterpreted: computed by the RustCrypto cores)
pub uninterp spec fn std_digest(a: Digest, data: Seq<u8>) -> Seq<u8>;
/// what a reader delivers in total, whatever the sizes of the individual reads and however often a read is
/// Interrupted: Ok(all bytes up to end-of-file) or Err (a hard I/O error somewhere in the read sequence)
pub uninterp spec fn stream_of<R>(r: R) -> core::result::Result<Seq<u8>, ()>;

/// BufRead::split(b'\n'): the pieces between newlines, without the newline; no empty piece after a final newline
pub open spec fn bsplit_nl(b: Seq<u8>) -> Seq<Seq<u8>> decreases b.len() {
    if b.len() == 0 { seq![] } else {
        let i = b.index_of(0x0au8);
        if !b.contains(0x0au8) { seq![b] } else { seq![b.take(i)] + bsplit_nl(b.skip(i + 1)) }
    }
}
pub open spec fn NETBSD() -> Seq<u8> { seq![0x24u8, 0x4eu8, 0x65u8, 0x74u8, 0x42u8, 0x53u8, 0x44u8] }   // "$NetBSD"
pub open spec fn has_marker(line: Seq<u8>) -> bool { exists|k: int| 0 <= k && k + 7 <= line.len() && #[trigger] line.subrange(k, k + 7) == NETBSD() }
/// statement of C13 for patches: every line that contains '$NetBSD' is removed; every kept line is newline-terminated
/// (a final unterminated line counts as terminated)
pub open spec fn patch_filter_upto(pieces: Seq<Seq<u8>>, n: int) -> Seq<u8> decreases n {
    if n <= 0 || n > pieces.len() { Seq::<u8>::empty() } else {
        let p = pieces[n - 1];
        if has_marker(p) { patch_filter_upto(pieces, n - 1) } else { patch_filter_upto(pieces, n - 1) + p + seq![0x0au8] }
    }
}
pub open spec fn patch_filter(b: Seq<u8>) -> Seq<u8> { patch_filter_upto(bsplit_nl(b), bsplit_nl(b).len() as int) }

pub open spec fn hexd(n: int) -> char { seq!['0', '1', '2', '3', '4', '5', '6', '7', '8', '9', 'a', 'b', 'c', 'd', 'e', 'f'][n] }
pub open spec fn hex2(b: u8) -> Seq<char> { seq![hexd(b as int / 16), hexd(b as int % 16)] }
/// lower-case hex, two digits per byte, in order
pub open spec fn hex_seq(bs: Seq<u8>) -> Seq<char> decreases bs.len() {
    if bs.len() == 0 { Seq::<char>::empty() } else { hex_seq(bs.drop_last()) + hex2(bs.last()) }
}
