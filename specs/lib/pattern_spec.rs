// lib/pattern_spec.rs -- statement-level specification of package patterns (C04, C05, C06).

// ---- dispatch (C05): braces -> alternate; else '<' '>' -> dewey; else any of * ? [ ] -> glob; else plain
pub open spec fn is_brace_pat(p: Seq<char>) -> bool { p.contains('{') || p.contains('}') }
pub open spec fn is_dewey_pat(p: Seq<char>) -> bool { !is_brace_pat(p) && (p.contains('>') || p.contains('<')) }
pub open spec fn has_glob_char(p: Seq<char>) -> bool { p.contains('*') || p.contains('?') || p.contains('[') || p.contains(']') }
pub open spec fn is_glob_pat(p: Seq<char>) -> bool { !is_brace_pat(p) && !(p.contains('>') || p.contains('<')) && has_glob_char(p) }

// ---- brace nesting (C04): depth never negative, ends at 0.  scan returns -1 on underflow, else the final depth
pub open spec fn scan(cs: Seq<char>, k: int, d: int) -> int decreases cs.len() - k {
    if k >= cs.len() || k < 0 { d }
    else if cs[k] == '{' { scan(cs, k + 1, d + 1) }
    else if cs[k] == '}' { if d <= 0 { -1 } else { scan(cs, k + 1, d - 1) } }
    else { scan(cs, k + 1, d) }
}
pub open spec fn balanced(cs: Seq<char>) -> bool { scan(cs, 0, 0) == 0 }

// ---- the glob crate (dependency, not verified): uninterpreted compile/match relations
pub uninterp spec fn glob_ok(p: Seq<char>) -> bool;
pub uninterp spec fn glob_match(p: Seq<char>, name: Seq<char>) -> bool;
pub open spec fn is_simple(c: char) -> bool { is_alnum(c) || c == '-' }
/// G1 (assumed about the glob crate): a pattern's leading alphanumeric/'-' characters are literals - a name
/// matching the compiled glob starts with them
pub axiom fn axiom_glob_literal_prefix(p: Seq<char>, name: Seq<char>)
    requires glob_ok(p), glob_match(p, name)
    ensures p.len() >= 1 && is_simple(p[0]) ==> name.len() >= 1 && name[0] == p[0],
            p.len() >= 2 && is_simple(p[0]) && is_simple(p[1]) ==> name.len() >= 2 && name[1] == p[1];

/// the pattern obtained by replacing the right-most group of p by its a-th alternative
pub open spec fn rm_first(p: Seq<char>) -> Seq<char> { p.take(last_index_of(p, '{')) }
pub open spec fn rm_rest(p: Seq<char>) -> Seq<char> { p.skip(last_index_of(p, '{')) }
pub open spec fn rm_close(p: Seq<char>) -> int { first_index_of(rm_rest(p), '}') }
pub open spec fn rm_alts(p: Seq<char>) -> Seq<Seq<char>> { split_commas(rm_rest(p).subrange(1, rm_close(p))) }
pub open spec fn rm_last(p: Seq<char>) -> Seq<char> { rm_rest(p).skip(rm_close(p) + 1) }
pub open spec fn rm_expand(p: Seq<char>, a: int) -> Seq<char> { rm_first(p) + rm_alts(p)[a] + rm_last(p) }

/// does pattern text p, compiled as a pattern in its own right, match name?  (false when it does not compile)
pub open spec fn pmatch(p: Seq<char>, name: Seq<char>) -> bool
    decreases count_c(p, '{'), 1nat
{
    if is_brace_pat(p) { balanced(p) && amatch(p, name) }
    else if is_dewey_pat(p) { dewey_pattern_matches(p, name) }
    else if is_glob_pat(p) { glob_ok(p) && glob_match(p, name) }
    else { p == name }
}
/// right-most-group expansion: some alternative of the right-most group, substituted, matches as a pattern
pub open spec fn amatch(p: Seq<char>, name: Seq<char>) -> bool
    decreases count_c(p, '{'), 0nat
{
    if last_index_of(p, '{') < 0 || rm_close(p) < 0 { false }
    else {
        exists|a: int| 0 <= a < rm_alts(p).len() && count_c(#[trigger] rm_expand(p, a), '{') < count_c(p, '{') && pmatch(rm_expand(p, a), name)
    }
}
/// does p compile?
pub open spec fn pvalid(p: Seq<char>) -> bool {
    if is_brace_pat(p) { balanced(p) }
    else if is_dewey_pat(p) { dewey_valid(p) }
    else if is_glob_pat(p) { glob_ok(p) }
    else { true }
}

// ---- the first-two-characters fast reject (C05)
pub open spec fn quick(p: Seq<char>, n: Seq<char>) -> bool {
    if p.len() == 0 || !is_simple(p[0]) { true }
    else if n.len() == 0 || n[0] != p[0] { false }
    else if p.len() == 1 || !is_simple(p[1]) { true }
    else if n.len() == 1 || n[1] != p[1] { false }
    else { true }
}

// ---- best match (C06)
pub open spec fn name_ver(n: Seq<char>) -> Tok { vtok(version_of(n)) }
/// a is strictly better than b: higher version under the dewey order, ties going to the byte-wise smaller name
pub open spec fn better(a: Seq<char>, b: Seq<char>) -> bool {
    let c = tcmp(name_ver(a), name_ver(b));
    c > 0 || (c == 0 && lex_lt(encode_utf8(a), encode_utf8(b)))
}
pub open spec fn best(a: Seq<char>, b: Seq<char>) -> Seq<char> { if better(a, b) { a } else { b } }

pub proof fn lemma_lex_irrefl(a: Seq<u8>) ensures !lex_lt(a, a) decreases a.len() {
    if a.len() > 0 { lemma_lex_irrefl(a.skip(1)); }
}
pub proof fn lemma_lex_total(a: Seq<u8>, b: Seq<u8>)
    ensures a != b ==> (lex_lt(a, b) || lex_lt(b, a)), !(lex_lt(a, b) && lex_lt(b, a))
    decreases a.len()
{
    if a.len() > 0 && b.len() > 0 && a[0] == b[0] {
        lemma_lex_total(a.skip(1), b.skip(1));
        if a.skip(1) == b.skip(1) { assert(a =~= seq![a[0]] + a.skip(1)); assert(b =~= seq![b[0]] + b.skip(1)); }
    } else if a.len() == 0 && b.len() == 0 { assert(a =~= b); }
}
pub proof fn lemma_lex_trans(a: Seq<u8>, b: Seq<u8>, c: Seq<u8>)
    requires lex_lt(a, b), lex_lt(b, c)
    ensures lex_lt(a, c)
    decreases a.len()
{
    if a.len() > 0 && b.len() > 0 && c.len() > 0 && a[0] == b[0] && b[0] == c[0] { lemma_lex_trans(a.skip(1), b.skip(1), c.skip(1)); }
}
pub proof fn lemma_encode_injective(a: Seq<char>, b: Seq<char>)
    ensures encode_utf8(a) == encode_utf8(b) ==> a == b
{
    encode_utf8_decode_utf8(a); encode_utf8_decode_utf8(b);
}
/// the dewey comparison is a total preorder on token sequences (C03 laws restated on Tok)
pub proof fn lemma_tcmp_laws(a: Tok, b: Tok, c: Tok)
    ensures tcmp(a, a) == 0, tcmp(a, b) == -tcmp(b, a),
        tcmp(a, b) >= 0 && tcmp(b, c) >= 0 ==> tcmp(a, c) >= 0,
        tcmp(a, b) > 0 && tcmp(b, c) >= 0 ==> tcmp(a, c) > 0,
        tcmp(a, b) >= 0 && tcmp(b, c) > 0 ==> tcmp(a, c) > 0,
{
    law_refl(a.v, a.rev);
    law_antisym(a.v, a.rev, b.v, b.rev); law_antisym(b.v, b.rev, c.v, c.rev); law_antisym(a.v, a.rev, c.v, c.rev);
    if tcmp(a, b) >= 0 && tcmp(b, c) >= 0 { law_trans(c.v, c.rev, b.v, b.rev, a.v, a.rev); }
    if tcmp(a, b) > 0 && tcmp(b, c) >= 0 && tcmp(a, c) <= 0 { law_trans(a.v, a.rev, c.v, c.rev, b.v, b.rev); }
    if tcmp(a, b) >= 0 && tcmp(b, c) > 0 && tcmp(a, c) <= 0 { law_trans(b.v, b.rev, a.v, a.rev, c.v, c.rev); }
}
/// `better` is a strict total order on names
pub proof fn lemma_better_order(a: Seq<char>, b: Seq<char>, c: Seq<char>)
    ensures !better(a, a),
        !(better(a, b) && better(b, a)),
        a != b ==> (better(a, b) || better(b, a)),
        better(a, b) && better(b, c) ==> better(a, c),
{
    lemma_tcmp_laws(name_ver(a), name_ver(b), name_ver(c));
    lemma_tcmp_laws(name_ver(b), name_ver(a), name_ver(c));
    lemma_lex_irrefl(encode_utf8(a));
    lemma_lex_total(encode_utf8(a), encode_utf8(b));
    lemma_encode_injective(a, b);
    if better(a, b) && better(b, c) {
        if tcmp(name_ver(a), name_ver(b)) == 0 && tcmp(name_ver(b), name_ver(c)) == 0 {
            lemma_lex_trans(encode_utf8(a), encode_utf8(b), encode_utf8(c));
            lemma_tcmp_laws(name_ver(c), name_ver(b), name_ver(a));
        }
    }
}
/// the result does not depend on argument order
pub proof fn lemma_best_commutative(a: Seq<char>, b: Seq<char>)
    ensures best(a, b) == best(b, a)
{
    lemma_better_order(a, b, a);
}
/// any pairwise reduction (every permutation, every association order) of a list of candidates: a binary tree
pub enum Red { Leaf(Seq<char>), Node(Box<Red>, Box<Red>) }
pub open spec fn red_eval(t: Red) -> Seq<char> decreases t {
    match t { Red::Leaf(n) => n, Red::Node(l, r) => best(red_eval(*l), red_eval(*r)) }
}
pub open spec fn red_has(t: Red, n: Seq<char>) -> bool decreases t {
    match t { Red::Leaf(m) => m == n, Red::Node(l, r) => red_has(*l, n) || red_has(*r, n) }
}
/// the winner of any reduction is one of the candidates and no candidate is better than it
pub proof fn lemma_reduction_is_maximum(t: Red)
    ensures red_has(t, red_eval(t)), forall|n: Seq<char>| red_has(t, n) ==> !better(n, red_eval(t))
    decreases t
{
    match t {
        Red::Leaf(m) => { lemma_better_order(m, m, m); }
        Red::Node(l, r) => {
            lemma_reduction_is_maximum(*l); lemma_reduction_is_maximum(*r);
            let a = red_eval(*l); let b = red_eval(*r); let w = best(a, b);
            assert forall|n: Seq<char>| red_has(t, n) implies !better(n, w) by {
                lemma_better_order(n, a, b); lemma_better_order(n, b, a); lemma_better_order(a, b, a);
                if red_has(*l, n) { assert(!better(n, a)); } else { assert(red_has(*r, n)); assert(!better(n, b)); }
            }
        }
    }
}
/// hence two reductions over the same candidates (any order, any association) have the same winner
pub proof fn lemma_reduction_order_independent(t1: Red, t2: Red)
    requires forall|n: Seq<char>| red_has(t1, n) == red_has(t2, n)
    ensures red_eval(t1) == red_eval(t2)
{
    lemma_reduction_is_maximum(t1); lemma_reduction_is_maximum(t2);
    lemma_better_order(red_eval(t1), red_eval(t2), red_eval(t1));
}
