// lib/brace_expansion.rs -- C04: the csh-style brace expansion as a denotation of the pattern text, and the theorem that
// Pattern::alternate_match's right-most-group-first substitution (amatch) matches exactly through that expansion.
// Everything here is proved; nothing is assumed.  Included after std_str.rs (first part) / pattern_spec.rs (theorem).

pub open spec fn bdelta(c: char) -> int { if c == '{' { 1 } else if c == '}' { -1int } else { 0 } }
pub open spec fn no_char(s: Seq<char>, c: char) -> bool { forall|x: int| 0 <= x < s.len() ==> s[x] != c }
pub open spec fn brace_free(s: Seq<char>) -> bool { no_char(s, '{') && no_char(s, '}') }

/// scanning forward from index k at nesting depth d.  close mode: the index of the '}' that closes depth 1 (the partner of a
/// '{' just before k when d == 1).  comma mode: the index of the first ',' at depth 0 (a separator of the group whose interior
/// is s), giving up when the depth drops below 0.  -1: none.
pub open spec fn seek(s: Seq<char>, k: int, d: int, close: bool) -> int decreases s.len() - k {
    if k < 0 || k >= s.len() { -1 }
    else if !close && d < 0 { -1 }
    else if close && s[k] == '}' && d == 1 { k }
    else if !close && s[k] == ',' && d == 0 { k }
    else { seek(s, k + 1, d + bdelta(s[k]), close) }
}
pub open spec fn shift(r: int, n: int) -> int { if r < 0 { -1 } else { r + n } }

pub proof fn lemma_seek_range(s: Seq<char>, k: int, d: int, close: bool)
    requires 0 <= k
    ensures seek(s, k, d, close) == -1 || (k <= seek(s, k, d, close) < s.len()),
        seek(s, k, d, close) >= 0 ==> s[seek(s, k, d, close)] == (if close { '}' } else { ',' }),
    decreases s.len() - k
{
    if k < s.len() && !(!close && d < 0) && !(close && s[k] == '}' && d == 1) && !(!close && s[k] == ',' && d == 0) {
        lemma_seek_range(s, k + 1, d + bdelta(s[k]), close);
    }
}
/// seek only looks at the text from k on
pub proof fn lemma_seek_suffix(s: Seq<char>, n: int, k: int, d: int, close: bool)
    requires 0 <= n <= k, n <= s.len()
    ensures seek(s, k, d, close) == shift(seek(s.skip(n), k - n, d, close), n)
    decreases s.len() - k
{
    if k < s.len() {
        let t = s.skip(n);
        assert(t[k - n] == s[k]);
        if !(!close && d < 0) && !(close && s[k] == '}' && d == 1) && !(!close && s[k] == ',' && d == 0) {
            lemma_seek_suffix(s, n, k + 1, d + bdelta(s[k]), close);
        }
    }
}
/// a stretch without braces is passed over when its commas cannot be separators
pub proof fn lemma_seek_skip_plain(s: Seq<char>, k: int, n: int, d: int, close: bool)
    requires 0 <= k, 0 <= n, k + n <= s.len(),
        forall|x: int| k <= x < k + n ==> s[x] != '{' && s[x] != '}',
        close || d != 0 || (forall|x: int| k <= x < k + n ==> s[x] != ','),
    ensures seek(s, k, d, close) == seek(s, k + n, d, close)
    decreases n
{
    if n > 0 {
        if !close && d < 0 { }
        else { lemma_seek_skip_plain(s, k + 1, n - 1, d, close); }
    }
}
/// a complete innermost group `{...}` is passed over: nothing inside it is an event for the enclosing scan
pub proof fn lemma_seek_skip_group(s: Seq<char>, k: int, n: int, d: int, close: bool)
    requires 0 <= k, 2 <= n, k + n <= s.len(), s[k] == '{', s[k + n - 1] == '}',
        forall|x: int| k + 1 <= x < k + n - 1 ==> s[x] != '{' && s[x] != '}',
        close ==> d >= 1,
    ensures seek(s, k, d, close) == seek(s, k + n, d, close)
{
    if !close && d < 0 { }
    else {
        assert(seek(s, k, d, close) == seek(s, k + 1, d + 1, close));
        lemma_seek_skip_plain(s, k + 1, n - 2, d + 1, close);
        assert(seek(s, k + n - 1, d + 1, close) == seek(s, k + n, d, close));
    }
}

/// a chunk that an enclosing scan passes over: an innermost group, or plain text without braces and commas
pub open spec fn is_group(m: Seq<char>) -> bool {
    m.len() >= 2 && m[0] == '{' && m[m.len() - 1] == '}' && (forall|x: int| 1 <= x < m.len() - 1 ==> m[x] != '{' && m[x] != '}')
}
pub open spec fn is_plain(m: Seq<char>) -> bool { forall|x: int| 0 <= x < m.len() ==> m[x] != '{' && m[x] != '}' && m[x] != ',' }
pub open spec fn neutral(m: Seq<char>) -> bool { is_group(m) || is_plain(m) }

pub proof fn lemma_seek_skip_neutral(s: Seq<char>, k: int, m: Seq<char>, d: int, close: bool)
    requires 0 <= k, k + m.len() <= s.len(), neutral(m), s.subrange(k, k + m.len()) == m, close ==> d >= 1
    ensures seek(s, k, d, close) == seek(s, k + m.len(), d, close)
{
    let n = m.len() as int;
    assert forall|x: int| k <= x < k + n implies s[x] == m[x - k] by { assert(s.subrange(k, k + n)[x - k] == s[x]); }
    if is_group(m) {
        lemma_seek_skip_group(s, k, n, d, close);
    } else {
        lemma_seek_skip_plain(s, k, n, d, close);
    }
}

/// replacing one neutral chunk by another moves the events behind it and nothing else
pub proof fn lemma_seek_congr(u: Seq<char>, m1: Seq<char>, m2: Seq<char>, v: Seq<char>, k: int, d: int, close: bool)
    requires neutral(m1), neutral(m2), 0 <= k <= u.len(), close ==> d >= 1
    ensures ({
        let r1 = seek(u + m1 + v, k, d, close);
        let r2 = seek(u + m2 + v, k, d, close);
        &&& (r1 < 0 <==> r2 < 0)
        &&& (0 <= r1 < u.len() ==> r2 == r1)
        &&& (r1 >= u.len() ==> r1 >= u.len() + m1.len() && r2 == r1 - m1.len() + m2.len())
    })
    decreases u.len() - k
{
    let w1 = u + m1 + v;
    let w2 = u + m2 + v;
    if k < u.len() {
        assert(w1[k] == u[k] && w2[k] == u[k]);
        if !(!close && d < 0) && !(close && u[k] == '}' && d == 1) && !(!close && u[k] == ',' && d == 0) {
            lemma_seek_congr(u, m1, m2, v, k + 1, d + bdelta(u[k]), close);
        }
    } else {
        let n = u.len() as int;
        assert(w1.subrange(n, n + m1.len()) =~= m1);
        assert(w2.subrange(n, n + m2.len()) =~= m2);
        lemma_seek_skip_neutral(w1, n, m1, d, close);
        lemma_seek_skip_neutral(w2, n, m2, d, close);
        lemma_seek_suffix(w1, n + m1.len(), n + m1.len(), d, close);
        lemma_seek_suffix(w2, n + m2.len(), n + m2.len(), d, close);
        assert(w1.skip(n + m1.len()) =~= v);
        assert(w2.skip(n + m2.len()) =~= v);
        lemma_seek_range(v, 0, d, close);
    }
}

// ---- the alternatives of a group: its interior split at the commas of its own depth
pub open spec fn split_top(s: Seq<char>) -> Seq<Seq<char>> decreases s.len() {
    let c = seek(s, 0, 0, false);
    if c < 0 || c >= s.len() { seq![s] } else { seq![s.take(c)] + split_top(s.skip(c + 1)) }
}
pub proof fn lemma_split_top_len(s: Seq<char>)
    ensures split_top(s).len() >= 1, forall|k: int| 0 <= k < split_top(s).len() ==> (#[trigger] split_top(s)[k]).len() <= s.len()
    decreases s.len()
{
    let c = seek(s, 0, 0, false);
    if !(c < 0 || c >= s.len()) {
        lemma_split_top_len(s.skip(c + 1));
        let t = split_top(s.skip(c + 1));
        assert forall|k: int| 0 <= k < split_top(s).len() implies (#[trigger] split_top(s)[k]).len() <= s.len() by {
            if k > 0 { assert(split_top(s)[k] == t[k - 1]); }
        }
    }
}
/// without braces every comma is a separator: the interior of an innermost group splits as str::split(',') does
pub proof fn lemma_seek_plain_comma(s: Seq<char>, k: int)
    requires 0 <= k <= s.len(), brace_free(s)
    ensures seek(s, k, 0, false) == shift(first_index_of(s.skip(k), ','), k)
    decreases s.len() - k
{
    let t = s.skip(k);
    if k < s.len() {
        assert(t[0] == s[k]);
        if s[k] != ',' {
            lemma_seek_plain_comma(s, k + 1);
            assert(t.skip(1) =~= s.skip(k + 1));
        }
    }
}
pub proof fn lemma_split_top_plain(s: Seq<char>)
    requires brace_free(s)
    ensures split_top(s) == split_commas(s)
    decreases s.len()
{
    lemma_seek_plain_comma(s, 0);
    assert(s.skip(0) =~= s);
    let c = first_index_of(s, ',');
    lemma_first_index_of(s, ',');
    if !(c < 0 || c >= s.len()) {
        let t = s.skip(c + 1);
        assert forall|x: int| 0 <= x < t.len() implies t[x] != '{' && t[x] != '}' by { assert(t[x] == s[x + c + 1]); }
        lemma_split_top_plain(t);
    }
}
pub proof fn lemma_split_commas_plain(s: Seq<char>, a: int)
    requires brace_free(s), 0 <= a < split_commas(s).len()
    ensures is_plain(split_commas(s)[a])
    decreases s.len()
{
    let i = first_index_of(s, ',');
    lemma_first_index_of(s, ',');
    if i < 0 || i >= s.len() {
        assert(split_commas(s)[0] == s);
    } else if a == 0 {
        assert(split_commas(s)[0] == s.take(i));
    } else {
        let t = s.skip(i + 1);
        assert(split_commas(s)[a] == split_commas(t)[a - 1]);
        assert forall|x: int| 0 <= x < t.len() implies t[x] != '{' && t[x] != '}' by { assert(t[x] == s[x + i + 1]); }
        lemma_split_commas_plain(t, a - 1);
    }
}

// ---- where a chunk placed between u and v lands among the alternatives of u + chunk + v
pub open spec fn hole_k(u: Seq<char>, v: Seq<char>) -> int decreases u.len() {
    let c = seek(u + v, 0, 0, false);
    if 0 <= c < u.len() { 1 + hole_k(u.skip(c + 1), v) } else { 0 }
}
pub open spec fn hole_p(u: Seq<char>, v: Seq<char>) -> Seq<char> decreases u.len() {
    let c = seek(u + v, 0, 0, false);
    if 0 <= c < u.len() { hole_p(u.skip(c + 1), v) } else { u }
}
pub open spec fn hole_q(u: Seq<char>, v: Seq<char>) -> Seq<char> decreases u.len() {
    let c = seek(u + v, 0, 0, false);
    if 0 <= c < u.len() { hole_q(u.skip(c + 1), v) } else if c < 0 || c - u.len() > v.len() { v } else { v.take(c - u.len()) }
}
pub proof fn lemma_hole_len(u: Seq<char>, v: Seq<char>)
    ensures hole_p(u, v).len() <= u.len(), hole_q(u, v).len() <= v.len(), hole_k(u, v) >= 0
    decreases u.len()
{
    let c = seek(u + v, 0, 0, false);
    if 0 <= c < u.len() { lemma_hole_len(u.skip(c + 1), v); }
    else { lemma_seek_range(u + v, 0, 0, false); }
}
/// the alternatives of u + m + v for a neutral chunk m: the chunk sits in alternative hole_k, between hole_p and hole_q;
/// every other alternative is the one of u + v
pub proof fn lemma_split_hole(u: Seq<char>, m: Seq<char>, v: Seq<char>)
    requires neutral(m)
    ensures ({
        let s = split_top(u + m + v);
        let s0 = split_top(u + v);
        let k0 = hole_k(u, v);
        &&& s.len() == s0.len()
        &&& 0 <= k0 < s.len()
        &&& s[k0] == hole_p(u, v) + m + hole_q(u, v)
        &&& forall|k: int| 0 <= k < s.len() && k != k0 ==> s[k] == s0[k]
    })
    decreases u.len()
{
    let w = u + m + v;
    let w0 = u + v;
    let e = Seq::<char>::empty();
    assert(is_plain(e));
    assert(u + e + v =~= w0);
    lemma_seek_congr(u, m, e, v, 0, 0, false);
    let c1 = seek(w, 0, 0, false);
    let c0 = seek(w0, 0, 0, false);
    lemma_seek_range(w, 0, 0, false);
    lemma_seek_range(w0, 0, 0, false);
    if c1 < 0 {
    } else if c1 < u.len() {
        let u2 = u.skip(c1 + 1);
        assert(w.take(c1) =~= w0.take(c1));
        assert(w.skip(c1 + 1) =~= u2 + m + v);
        assert(w0.skip(c1 + 1) =~= u2 + v);
        lemma_split_hole(u2, m, v);
        let t = split_top(u2 + m + v);
        let t0 = split_top(u2 + v);
        let s = split_top(w);
        let s0 = split_top(w0);
        assert(s == seq![w.take(c1)] + t);
        assert(s0 == seq![w0.take(c1)] + t0);
        let k0 = hole_k(u, v);
        assert(k0 == 1 + hole_k(u2, v));
        assert(s[k0] == t[k0 - 1]);
        assert forall|k: int| 0 <= k < s.len() && k != k0 implies s[k] == s0[k] by {
            if k > 0 { assert(s[k] == t[k - 1]); assert(s0[k] == t0[k - 1]); }
        }
    } else {
        let n = u.len() as int;
        let q = v.take(c0 - n);
        assert(w.take(c1) =~= u + m + q);
        assert(w.skip(c1 + 1) =~= v.skip(c0 - n + 1));
        assert(w0.skip(c0 + 1) =~= v.skip(c0 - n + 1));
        let s = split_top(w);
        let s0 = split_top(w0);
        let t = split_top(v.skip(c0 - n + 1));
        assert(s == seq![w.take(c1)] + t);
        assert(s0 == seq![w0.take(c0)] + t);
        assert forall|k: int| 0 <= k < s.len() && k != 0 implies s[k] == s0[k] by {
            assert(s[k] == t[k - 1]); assert(s0[k] == t[k - 1]);
        }
    }
}

pub proof fn lemma_first_index_least(s: Seq<char>, c: char, i: int)
    requires 0 <= i < s.len(), s[i] == c, forall|x: int| 0 <= x < i ==> s[x] != c
    ensures first_index_of(s, c) == i
{
    lemma_first_index_of(s, c);
}
pub proof fn lemma_first_index_none(s: Seq<char>, c: char)
    requires no_char(s, c)
    ensures first_index_of(s, c) == -1
{
    lemma_first_index_of(s, c);
}
pub proof fn lemma_first_index_concat(f: Seq<char>, v: Seq<char>, c: char)
    ensures first_index_of(f, c) >= 0 ==> first_index_of(f + v, c) == first_index_of(f, c),
        no_char(f, c) ==> first_index_of(f + v, c) == shift(first_index_of(v, c), f.len() as int),
{
    lemma_first_index_of(f, c);
    lemma_first_index_of(v, c);
    let w = f + v;
    if first_index_of(f, c) >= 0 {
        let i = first_index_of(f, c);
        assert(w[i] == f[i]);
        assert forall|x: int| 0 <= x < i implies w[x] != c by { assert(w[x] == f[x]); }
        lemma_first_index_least(w, c, i);
    } else if no_char(f, c) {
        let iv = first_index_of(v, c);
        if iv < 0 {
            assert forall|x: int| 0 <= x < w.len() implies w[x] != c by { if x < f.len() { assert(w[x] == f[x]); } else { assert(w[x] == v[x - f.len()]); } }
            lemma_first_index_none(w, c);
        } else {
            let i = iv + f.len();
            assert(w[i] == v[iv]);
            assert forall|x: int| 0 <= x < i implies w[x] != c by { if x < f.len() { assert(w[x] == f[x]); } else { assert(w[x] == v[x - f.len()]); } }
            lemma_first_index_least(w, c, i);
        }
    }
}

// ---- the expansion.  dhas(s, e): e is one of the strings the brace pattern text s stands for:
//      text without '{' stands for itself;  A{I}C (first '{', its depth-matching '}') stands for A, followed by an expansion of one
//      of the alternatives of I (split at the commas of I's own depth; empty alternatives included), followed by an expansion of C.
/// (a recursive call cannot serve as the trigger of a quantifier in its own definition)
pub open spec fn wit(k: int, m: int) -> bool { true }
pub open spec fn dhas(s: Seq<char>, e: Seq<char>) -> bool decreases s.len() {
    let i = first_index_of(s, '{');
    if i < 0 || i >= s.len() { s == e }
    else {
        let j = seek(s, i + 1, 1, true);
        if j < 0 || j >= s.len() { false }
        else {
            let alts = split_top(s.subrange(i + 1, j));
            &&& e.len() >= i
            &&& e.take(i) == s.take(i)
            &&& exists|k: int, m: int| #[trigger] wit(k, m) && 0 <= k < alts.len() && i <= m <= e.len() && alts[k].len() < s.len()
                    && dhas(alts[k], e.subrange(i, m)) && dhas(s.skip(j + 1), e.skip(m))
        }
    }
}
pub proof fn lemma_dhas_plain(s: Seq<char>, e: Seq<char>)
    requires no_char(s, '{')
    ensures dhas(s, e) == (s == e)
{
    lemma_first_index_none(s, '{');
}
/// one unfolding of dhas at a pattern whose first '{' is at i and closes at j
pub open spec fn dstep(s: Seq<char>, e: Seq<char>, i: int, j: int, k: int, m: int) -> bool {
    let alts = split_top(s.subrange(i + 1, j));
    0 <= k < alts.len() && i <= m <= e.len() && alts[k].len() < s.len() && dhas(alts[k], e.subrange(i, m)) && dhas(s.skip(j + 1), e.skip(m))
}
pub proof fn lemma_dhas_unfold(s: Seq<char>, e: Seq<char>)
    requires 0 <= first_index_of(s, '{')
    ensures ({
        let i = first_index_of(s, '{');
        let j = seek(s, i + 1, 1, true);
        &&& 0 <= i < s.len()
        &&& (j == -1 || i < j < s.len())
        &&& dhas(s, e) <==> (j >= 0 && e.len() >= i && e.take(i) == s.take(i) && exists|k: int, m: int| #[trigger] wit(k, m) && dstep(s, e, i, j, k, m))
    })
{
    lemma_first_index_of(s, '{');
    let i = first_index_of(s, '{');
    lemma_seek_range(s, i + 1, 1, true);
    let j = seek(s, i + 1, 1, true);
    if j >= 0 && e.len() >= i && e.take(i) == s.take(i) {
        let alts = split_top(s.subrange(i + 1, j));
        if dhas(s, e) {
            let (k, m) = choose|k: int, m: int| #[trigger] wit(k, m) && 0 <= k < alts.len() && i <= m <= e.len() && alts[k].len() < s.len()
                    && dhas(alts[k], e.subrange(i, m)) && dhas(s.skip(j + 1), e.skip(m));
            assert(wit(k, m) && dstep(s, e, i, j, k, m));
        }
        if exists|k: int, m: int| #[trigger] wit(k, m) && dstep(s, e, i, j, k, m) {
            let (k, m) = choose|k: int, m: int| #[trigger] wit(k, m) && dstep(s, e, i, j, k, m);
            assert(wit(k, m) && 0 <= k < alts.len() && i <= m <= e.len() && alts[k].len() < s.len()
                    && dhas(alts[k], e.subrange(i, m)) && dhas(s.skip(j + 1), e.skip(m)));
        }
    }
}
/// the guard on the alternative's length in dhas always holds
pub proof fn lemma_alt_shorter(s: Seq<char>, i: int, j: int, k: int)
    requires 0 <= i < j < s.len(), 0 <= k < split_top(s.subrange(i + 1, j)).len()
    ensures split_top(s.subrange(i + 1, j))[k].len() < s.len()
{
    lemma_split_top_len(s.subrange(i + 1, j));
}

/// text without '{' in front of a pattern is copied
pub proof fn lemma_dhas_prefix(f: Seq<char>, v: Seq<char>, e: Seq<char>)
    requires no_char(f, '{')
    ensures dhas(f + v, e) <==> (e.len() >= f.len() && e.take(f.len() as int) == f && dhas(v, e.skip(f.len() as int)))
{
    let w = f + v;
    let n = f.len() as int;
    lemma_first_index_concat(f, v, '{');
    lemma_first_index_of(v, '{');
    let iv = first_index_of(v, '{');
    if iv < 0 {
        if w == e { assert(e.take(n) =~= f); assert(e.skip(n) =~= v); }
        if e.len() >= n && e.take(n) == f && v == e.skip(n) { assert(w =~= e); }
    } else {
        let i = iv + n;
        let jv = seek(v, iv + 1, 1, true);
        lemma_seek_suffix(w, n, i + 1, 1, true);
        assert(w.skip(n) =~= v);
        let j = seek(w, i + 1, 1, true);
        lemma_dhas_unfold(w, e);
        lemma_dhas_unfold(v, e.skip(n));
        if jv >= 0 {
            let e2 = e.skip(n);
            assert(w.subrange(i + 1, j) =~= v.subrange(iv + 1, jv));
            assert(w.skip(j + 1) =~= v.skip(jv + 1));
            if dhas(w, e) {
                let (k, m) = choose|k: int, m: int| #[trigger] wit(k, m) && dstep(w, e, i, j, k, m);
                lemma_dhas_prefix_a(f, v, e, iv, jv, k, m);
                assert(wit(k, m - n));
            }
            if e.len() >= n && e.take(n) == f && dhas(v, e2) {
                let (k, m2) = choose|k: int, m: int| #[trigger] wit(k, m) && dstep(v, e2, iv, jv, k, m);
                lemma_dhas_prefix_b(f, v, e, iv, jv, k, m2);
                assert(wit(k, m2 + n));
            }
        }
    }
}
pub proof fn lemma_dhas_prefix_a(f: Seq<char>, v: Seq<char>, e: Seq<char>, iv: int, jv: int, k: int, m: int)
    requires 0 <= iv < jv < v.len(), e.len() >= iv + f.len(), e.take(iv + f.len()) == (f + v).take(iv + f.len()),
        dstep(f + v, e, iv + f.len(), jv + f.len(), k, m)
    ensures e.take(f.len() as int) == f, e.skip(f.len() as int).take(iv) == v.take(iv), dstep(v, e.skip(f.len() as int), iv, jv, k, m - f.len())
{
    let w = f + v;
    let n = f.len() as int;
    let i = iv + n;
    let j = jv + n;
    let e2 = e.skip(n);
    assert(w.subrange(i + 1, j) =~= v.subrange(iv + 1, jv));
    assert(w.skip(j + 1) =~= v.skip(jv + 1));
    assert(e.take(n) =~= e.take(i).take(n));
    assert(w.take(i).take(n) =~= f);
    assert(e2.take(iv) =~= e.take(i).skip(n));
    assert(v.take(iv) =~= w.take(i).skip(n));
    assert(e2.subrange(iv, m - n) =~= e.subrange(i, m));
    assert(e2.skip(m - n) =~= e.skip(m));
    lemma_alt_shorter(v, iv, jv, k);
}
pub proof fn lemma_dhas_prefix_b(f: Seq<char>, v: Seq<char>, e: Seq<char>, iv: int, jv: int, k: int, m2: int)
    requires 0 <= iv < jv < v.len(), e.len() >= f.len(), e.take(f.len() as int) == f, e.skip(f.len() as int).len() >= iv,
        e.skip(f.len() as int).take(iv) == v.take(iv),
        dstep(v, e.skip(f.len() as int), iv, jv, k, m2)
    ensures e.len() >= iv + f.len(), e.take(iv + f.len()) == (f + v).take(iv + f.len()), dstep(f + v, e, iv + f.len(), jv + f.len(), k, m2 + f.len())
{
    let w = f + v;
    let n = f.len() as int;
    let i = iv + n;
    let j = jv + n;
    let m = m2 + n;
    let e2 = e.skip(n);
    assert(w.subrange(i + 1, j) =~= v.subrange(iv + 1, jv));
    assert(w.skip(j + 1) =~= v.skip(jv + 1));
    assert(e.take(i) =~= e.take(n) + e2.take(iv));
    assert(w.take(i) =~= f + v.take(iv));
    assert(e2.subrange(iv, m2) =~= e.subrange(i, m));
    assert(e2.skip(m2) =~= e.skip(m));
    lemma_alt_shorter(w, i, j, k);
}

// ---- replacing an innermost group anywhere in a pattern by its alternatives, one at a time, gives the same expansion
pub open spec fn grp(i2: Seq<char>) -> Seq<char> { seq!['{'] + i2 + seq!['}'] }
pub open spec fn cx(u: Seq<char>, i2: Seq<char>, v: Seq<char>, e: Seq<char>, b: int) -> bool {
    0 <= b < split_commas(i2).len() && dhas(u + split_commas(i2)[b] + v, e)
}
pub open spec fn ctx_rhs(u: Seq<char>, i2: Seq<char>, v: Seq<char>, e: Seq<char>) -> bool { exists|b: int| #[trigger] cx(u, i2, v, e, b) }

pub proof fn lemma_grp_neutral(i2: Seq<char>)
    requires brace_free(i2)
    ensures is_group(grp(i2)), neutral(grp(i2)), grp(i2).len() == i2.len() + 2
{
    let m = grp(i2);
    assert forall|x: int| 1 <= x < m.len() - 1 implies m[x] != '{' && m[x] != '}' by { assert(m[x] == i2[x - 1]); }
}
/// an innermost group at the front: one of its comma-separated alternatives, then an expansion of the rest
pub proof fn lemma_dhas_group(i2: Seq<char>, v: Seq<char>, e: Seq<char>, b: int)
    requires brace_free(i2), 0 <= b < split_commas(i2).len(), e.len() >= split_commas(i2)[b].len(),
        e.take(split_commas(i2)[b].len() as int) == split_commas(i2)[b], dhas(v, e.skip(split_commas(i2)[b].len() as int))
    ensures dhas(grp(i2) + v, e)
{
    let s = grp(i2) + v;
    let n = i2.len() as int;
    lemma_group_shape(i2, v);
    lemma_dhas_unfold(s, e);
    let alt = split_commas(i2)[b];
    lemma_split_commas_plain(i2, b);
    lemma_dhas_plain(alt, e.take(alt.len() as int));
    assert(e.subrange(0, alt.len() as int) =~= e.take(alt.len() as int));
    assert(e.take(0) =~= s.take(0));
    lemma_alt_shorter(s, 0, n + 1, b);
    assert(wit(b, alt.len() as int) && dstep(s, e, 0, n + 1, b, alt.len() as int));
}
pub proof fn lemma_group_shape(i2: Seq<char>, v: Seq<char>)
    requires brace_free(i2)
    ensures ({
        let s = grp(i2) + v;
        &&& first_index_of(s, '{') == 0
        &&& seek(s, 1, 1, true) == i2.len() + 1
        &&& split_top(s.subrange(1, i2.len() as int + 1)) == split_commas(i2)
        &&& s.skip(i2.len() as int + 2) == v
    })
{
    let s = grp(i2) + v;
    let n = i2.len() as int;
    assert(s[0] == '{');
    lemma_first_index_least(s, '{', 0);
    assert forall|x: int| 1 <= x < 1 + n implies s[x] != '{' && s[x] != '}' by { assert(s[x] == i2[x - 1]); }
    lemma_seek_skip_plain(s, 1, n, 1, true);
    assert(s[n + 1] == '}');
    assert(seek(s, n + 1, 1, true) == n + 1);
    assert(s.subrange(1, n + 1) =~= i2);
    lemma_split_top_plain(i2);
    assert(s.skip(n + 2) =~= v);
}
pub proof fn lemma_dhas_group_inv(i2: Seq<char>, v: Seq<char>, e: Seq<char>) -> (b: int)
    requires brace_free(i2), dhas(grp(i2) + v, e)
    ensures 0 <= b < split_commas(i2).len(), e.len() >= split_commas(i2)[b].len(),
        e.take(split_commas(i2)[b].len() as int) == split_commas(i2)[b], dhas(v, e.skip(split_commas(i2)[b].len() as int))
{
    let s = grp(i2) + v;
    let n = i2.len() as int;
    lemma_group_shape(i2, v);
    lemma_dhas_unfold(s, e);
    let (k, m) = choose|k: int, m: int| #[trigger] wit(k, m) && dstep(s, e, 0, n + 1, k, m);
    let alt = split_commas(i2)[k];
    lemma_split_commas_plain(i2, k);
    lemma_dhas_plain(alt, e.subrange(0, m));
    assert(e.subrange(0, m) =~= e.take(m));
    k
}

pub proof fn lemma_take_join(u: Seq<char>, a: Seq<char>, e: Seq<char>)
    ensures
        (e.len() >= u.len() + a.len() && e.take((u.len() + a.len()) as int) == u + a)
            <==> (e.len() >= u.len() && e.take(u.len() as int) == u && e.skip(u.len() as int).len() >= a.len() && e.skip(u.len() as int).take(a.len() as int) == a),
        e.len() >= u.len() + a.len() ==> e.skip((u.len() + a.len()) as int) == e.skip(u.len() as int).skip(a.len() as int),
{
    let n = u.len() as int;
    let l = a.len() as int;
    if e.len() >= n + l {
        let e1 = e.skip(n);
        assert(e.skip(n + l) =~= e1.skip(l));
        if e.take(n + l) == u + a {
            assert(e.take(n) =~= e.take(n + l).take(n));
            assert((u + a).take(n) =~= u);
            assert(e1.take(l) =~= e.take(n + l).skip(n));
            assert((u + a).skip(n) =~= a);
        }
        if e.take(n) == u && e1.take(l) == a {
            assert(e.take(n + l) =~= e.take(n) + e1.take(l));
        }
    }
}
pub proof fn lemma_no_open_join(u: Seq<char>, alt: Seq<char>)
    requires no_char(u, '{'), is_plain(alt)
    ensures no_char(u + alt, '{')
{
    let ua = u + alt;
    assert forall|x: int| 0 <= x < ua.len() implies ua[x] != '{' by { if x < u.len() { assert(ua[x] == u[x]); } else { assert(ua[x] == alt[x - u.len()]); } }
}
/// case: no '{' in front of the group
pub proof fn lemma_ctx_a1(u: Seq<char>, i2: Seq<char>, v: Seq<char>, e: Seq<char>)
    requires brace_free(i2), no_char(u, '{'), dhas(u + grp(i2) + v, e)
    ensures ctx_rhs(u, i2, v, e)
{
    let m = grp(i2);
    let w = u + m + v;
    let n = u.len() as int;
    assert(w =~= u + (m + v));
    lemma_dhas_prefix(u, m + v, e);
    let e1 = e.skip(n);
    let b = lemma_dhas_group_inv(i2, v, e1);
    let alt = split_commas(i2)[b];
    lemma_split_commas_plain(i2, b);
    lemma_no_open_join(u, alt);
    lemma_dhas_prefix(u + alt, v, e);
    lemma_take_join(u, alt, e);
    assert(cx(u, i2, v, e, b));
}
pub proof fn lemma_ctx_a2(u: Seq<char>, i2: Seq<char>, v: Seq<char>, e: Seq<char>, b: int)
    requires brace_free(i2), no_char(u, '{'), cx(u, i2, v, e, b)
    ensures dhas(u + grp(i2) + v, e)
{
    let m = grp(i2);
    let w = u + m + v;
    let n = u.len() as int;
    assert(w =~= u + (m + v));
    lemma_dhas_prefix(u, m + v, e);
    let e1 = e.skip(n);
    let alt = split_commas(i2)[b];
    lemma_split_commas_plain(i2, b);
    lemma_no_open_join(u, alt);
    lemma_dhas_prefix(u + alt, v, e);
    lemma_take_join(u, alt, e);
    lemma_dhas_group(i2, v, e1, b);
}

pub proof fn lemma_shape_inside(u: Seq<char>, x: Seq<char>, v: Seq<char>, i: int, j: int)
    requires 0 <= i < j < u.len()
    ensures (u + x + v).take(i) == u.take(i), (u + x + v).subrange(i + 1, j) == u.subrange(i + 1, j),
        (u + x + v).skip(j + 1) == u.skip(j + 1) + x + v
{
    let w = u + x + v;
    assert(w.take(i) =~= u.take(i));
    assert(w.subrange(i + 1, j) =~= u.subrange(i + 1, j));
    assert(w.skip(j + 1) =~= u.skip(j + 1) + x + v);
}
pub proof fn lemma_shape_around(u: Seq<char>, x: Seq<char>, v: Seq<char>, i: int, j: int)
    requires 0 <= i < u.len(), u.len() + x.len() <= j < (u + x + v).len()
    ensures (u + x + v).take(i) == u.take(i),
        (u + x + v).subrange(i + 1, j) == u.skip(i + 1) + x + v.take(j - u.len() - x.len()),
        (u + x + v).skip(j + 1) == v.skip(j - u.len() - x.len() + 1)
{
    let w = u + x + v;
    assert(w.take(i) =~= u.take(i));
    assert(w.subrange(i + 1, j) =~= u.skip(i + 1) + x + v.take(j - u.len() - x.len()));
    assert(w.skip(j + 1) =~= v.skip(j - u.len() - x.len() + 1));
}
/// the same first '{' and (shifted) partner in u + m1 + v and u + m2 + v when the '{' lies in u
pub proof fn lemma_ctx_frame(u: Seq<char>, m1: Seq<char>, m2: Seq<char>, v: Seq<char>)
    requires neutral(m1), neutral(m2), first_index_of(u, '{') >= 0
    ensures ({
        let i = first_index_of(u, '{');
        let j1 = seek(u + m1 + v, i + 1, 1, true);
        let j2 = seek(u + m2 + v, i + 1, 1, true);
        &&& 0 <= i < u.len()
        &&& first_index_of(u + m1 + v, '{') == i
        &&& first_index_of(u + m2 + v, '{') == i
        &&& (j1 < 0 <==> j2 < 0)
        &&& (j1 >= 0 ==> i < j1 < (u + m1 + v).len())
        &&& (0 <= j1 < u.len() ==> j2 == j1)
        &&& (j1 >= u.len() ==> j1 >= u.len() + m1.len() && j2 == j1 - m1.len() + m2.len())
    })
{
    let i = first_index_of(u, '{');
    lemma_first_index_of(u, '{');
    assert(u + m1 + v =~= u + (m1 + v));
    assert(u + m2 + v =~= u + (m2 + v));
    lemma_first_index_concat(u, m1 + v, '{');
    lemma_first_index_concat(u, m2 + v, '{');
    lemma_seek_congr(u, m1, m2, v, i + 1, 1, true);
    lemma_seek_range(u + m1 + v, i + 1, 1, true);
}
/// transfer of one unfolding from u + m1 + v to u + m2 + v, the group of the first '{' closing inside u
pub proof fn lemma_ctx_inside(u: Seq<char>, m1: Seq<char>, m2: Seq<char>, v: Seq<char>, e: Seq<char>, i: int, j: int, k: int, mm: int)
    requires 0 <= i < j < u.len(), e.len() >= i, e.take(i) == (u + m1 + v).take(i),
        0 <= k < split_top((u + m1 + v).subrange(i + 1, j)).len(), i <= mm <= e.len(),
        dhas(split_top((u + m1 + v).subrange(i + 1, j))[k], e.subrange(i, mm)),
        dhas(u.skip(j + 1) + m2 + v, e.skip(mm)),
    ensures e.take(i) == (u + m2 + v).take(i), dstep(u + m2 + v, e, i, j, k, mm)
{
    lemma_shape_inside(u, m1, v, i, j);
    lemma_shape_inside(u, m2, v, i, j);
    lemma_alt_shorter(u + m2 + v, i, j, k);
}
/// ... the group of the first '{' enclosing the chunk
pub proof fn lemma_ctx_around(u: Seq<char>, m1: Seq<char>, m2: Seq<char>, v: Seq<char>, e: Seq<char>, i: int, j1: int, k: int, mm: int)
    requires neutral(m1), neutral(m2), 0 <= i < u.len(), u.len() + m1.len() <= j1 < (u + m1 + v).len(), e.len() >= i, e.take(i) == (u + m1 + v).take(i),
        0 <= k < split_top((u + m1 + v).subrange(i + 1, j1)).len(), i <= mm <= e.len(),
        dhas((u + m1 + v).skip(j1 + 1), e.skip(mm)),
        ({
            let u1 = u.skip(i + 1);
            let v1 = v.take(j1 - u.len() - m1.len());
            if k == hole_k(u1, v1) { dhas(hole_p(u1, v1) + m2 + hole_q(u1, v1), e.subrange(i, mm)) }
            else { dhas(split_top((u + m1 + v).subrange(i + 1, j1))[k], e.subrange(i, mm)) }
        }),
    ensures e.take(i) == (u + m2 + v).take(i), dstep(u + m2 + v, e, i, j1 - m1.len() + m2.len(), k, mm)
{
    let j2 = j1 - m1.len() + m2.len();
    lemma_shape_around(u, m1, v, i, j1);
    lemma_shape_around(u, m2, v, i, j2);
    let u1 = u.skip(i + 1);
    let v1 = v.take(j1 - u.len() - m1.len());
    lemma_split_hole(u1, m1, v1);
    lemma_split_hole(u1, m2, v1);
    lemma_alt_shorter(u + m2 + v, i, j2, k);
}

pub proof fn lemma_split_commas_nonempty(s: Seq<char>)
    ensures split_commas(s).len() >= 1
{
}
/// every expansion of u{I}v is an expansion of u + a + v for one of the comma-separated alternatives a of the innermost group {I}
pub proof fn lemma_ctx_fwd(u: Seq<char>, i2: Seq<char>, v: Seq<char>, e: Seq<char>)
    requires brace_free(i2), dhas(u + grp(i2) + v, e)
    ensures ctx_rhs(u, i2, v, e)
    decreases u.len() + v.len()
{
    let m = grp(i2);
    lemma_grp_neutral(i2);
    let w = u + m + v;
    let i = first_index_of(u, '{');
    lemma_first_index_of(u, '{');
    if i < 0 {
        lemma_ctx_a1(u, i2, v, e);
    } else {
        lemma_split_commas_nonempty(i2);
        let a0 = split_commas(i2)[0];
        lemma_split_commas_plain(i2, 0);
        lemma_ctx_frame(u, m, a0, v);
        lemma_dhas_unfold(w, e);
        let j = seek(w, i + 1, 1, true);
        let (k, mm) = choose|k: int, mm: int| #[trigger] wit(k, mm) && dstep(w, e, i, j, k, mm);
        if j < u.len() {
            lemma_shape_inside(u, m, v, i, j);
            let u2 = u.skip(j + 1);
            lemma_ctx_fwd(u2, i2, v, e.skip(mm));
            let b = choose|b: int| #[trigger] cx(u2, i2, v, e.skip(mm), b);
            let ab = split_commas(i2)[b];
            lemma_split_commas_plain(i2, b);
            lemma_ctx_frame(u, m, ab, v);
            lemma_ctx_inside(u, m, ab, v, e, i, j, k, mm);
            lemma_dhas_unfold(u + ab + v, e);
            assert(wit(k, mm));
            assert(cx(u, i2, v, e, b));
        } else {
            let u1 = u.skip(i + 1);
            let v1 = v.take(j - u.len() - m.len());
            lemma_shape_around(u, m, v, i, j);
            lemma_split_hole(u1, m, v1);
            if k == hole_k(u1, v1) {
                let p = hole_p(u1, v1);
                let q = hole_q(u1, v1);
                lemma_hole_len(u1, v1);
                lemma_ctx_fwd(p, i2, q, e.subrange(i, mm));
                let b = choose|b: int| #[trigger] cx(p, i2, q, e.subrange(i, mm), b);
                let ab = split_commas(i2)[b];
                lemma_split_commas_plain(i2, b);
                lemma_ctx_frame(u, m, ab, v);
                lemma_ctx_around(u, m, ab, v, e, i, j, k, mm);
                lemma_dhas_unfold(u + ab + v, e);
                assert(wit(k, mm));
                assert(cx(u, i2, v, e, b));
            } else {
                lemma_ctx_around(u, m, a0, v, e, i, j, k, mm);
                lemma_dhas_unfold(u + a0 + v, e);
                assert(wit(k, mm));
                assert(cx(u, i2, v, e, 0));
            }
        }
    }
}
/// ... and conversely
pub proof fn lemma_ctx_bwd(u: Seq<char>, i2: Seq<char>, v: Seq<char>, e: Seq<char>, b: int)
    requires brace_free(i2), cx(u, i2, v, e, b)
    ensures dhas(u + grp(i2) + v, e)
    decreases u.len() + v.len()
{
    let m = grp(i2);
    lemma_grp_neutral(i2);
    let w = u + m + v;
    let i = first_index_of(u, '{');
    lemma_first_index_of(u, '{');
    if i < 0 {
        lemma_ctx_a2(u, i2, v, e, b);
    } else {
        let ab = split_commas(i2)[b];
        lemma_split_commas_plain(i2, b);
        let wb = u + ab + v;
        lemma_ctx_frame(u, ab, m, v);
        lemma_dhas_unfold(wb, e);
        lemma_dhas_unfold(w, e);
        let j = seek(wb, i + 1, 1, true);
        let (k, mm) = choose|k: int, mm: int| #[trigger] wit(k, mm) && dstep(wb, e, i, j, k, mm);
        if j < u.len() {
            lemma_shape_inside(u, ab, v, i, j);
            let u2 = u.skip(j + 1);
            assert(cx(u2, i2, v, e.skip(mm), b));
            lemma_ctx_bwd(u2, i2, v, e.skip(mm), b);
            lemma_ctx_inside(u, ab, m, v, e, i, j, k, mm);
            assert(wit(k, mm));
        } else {
            let u1 = u.skip(i + 1);
            let v1 = v.take(j - u.len() - ab.len());
            lemma_shape_around(u, ab, v, i, j);
            lemma_split_hole(u1, ab, v1);
            if k == hole_k(u1, v1) {
                let p = hole_p(u1, v1);
                let q = hole_q(u1, v1);
                lemma_hole_len(u1, v1);
                assert(cx(p, i2, q, e.subrange(i, mm), b));
                lemma_ctx_bwd(p, i2, q, e.subrange(i, mm), b);
            }
            lemma_ctx_around(u, ab, m, v, e, i, j, k, mm);
            assert(wit(k, mm));
        }
    }
}
pub proof fn lemma_ctx(u: Seq<char>, i2: Seq<char>, v: Seq<char>, e: Seq<char>)
    requires brace_free(i2)
    ensures dhas(u + grp(i2) + v, e) <==> ctx_rhs(u, i2, v, e)
{
    if dhas(u + grp(i2) + v, e) { lemma_ctx_fwd(u, i2, v, e); }
    if ctx_rhs(u, i2, v, e) {
        let b = choose|b: int| #[trigger] cx(u, i2, v, e, b);
        lemma_ctx_bwd(u, i2, v, e, b);
    }
}

// ---- properly nested braces (scan, pattern_spec.rs) and the right-most group
pub proof fn lemma_scan_suffix(s: Seq<char>, n: int, k: int, d: int)
    requires 0 <= n <= k, n <= s.len()
    ensures scan(s, k, d) == scan(s.skip(n), k - n, d)
    decreases s.len() - k
{
    if k < s.len() {
        let t = s.skip(n);
        assert(t[k - n] == s[k]);
        if s[k] == '{' { lemma_scan_suffix(s, n, k + 1, d + 1); }
        else if s[k] == '}' { if d > 0 { lemma_scan_suffix(s, n, k + 1, d - 1); } }
        else { lemma_scan_suffix(s, n, k + 1, d); }
    }
}
pub proof fn lemma_scan_concat(x: Seq<char>, y: Seq<char>, k: int, d: int)
    requires 0 <= k <= x.len(), d >= 0
    ensures scan(x, k, d) >= -1, scan(x + y, k, d) == (if scan(x, k, d) < 0 { -1 } else { scan(y, 0, scan(x, k, d)) })
    decreases x.len() - k
{
    let w = x + y;
    if k < x.len() {
        assert(w[k] == x[k]);
        if x[k] == '{' { lemma_scan_concat(x, y, k + 1, d + 1); }
        else if x[k] == '}' { if d > 0 { lemma_scan_concat(x, y, k + 1, d - 1); } }
        else { lemma_scan_concat(x, y, k + 1, d); }
    } else {
        lemma_scan_suffix(w, k, k, d);
        assert(w.skip(k) =~= y);
    }
}
pub proof fn lemma_scan_plain(s: Seq<char>, k: int, d: int)
    requires 0 <= k, brace_free(s)
    ensures scan(s, k, d) == d
    decreases s.len() - k
{
    if k < s.len() { lemma_scan_plain(s, k + 1, d); }
}
pub proof fn lemma_scan_no_open(s: Seq<char>, k: int, d: int)
    requires 0 <= k, no_char(s, '{'), d >= 0
    ensures scan(s, k, d) <= d, scan(s, k, d) == d ==> (forall|x: int| k <= x < s.len() ==> s[x] != '}')
    decreases s.len() - k
{
    if k < s.len() {
        if s[k] == '}' { if d > 0 { lemma_scan_no_open(s, k + 1, d - 1); } }
        else { lemma_scan_no_open(s, k + 1, d); }
    }
}
/// the right-most group of p as u + {I} + v, I without braces, its alternatives the comma-separated pieces of I
pub open spec fn rm_inner(p: Seq<char>) -> Seq<char> { rm_rest(p).subrange(1, rm_close(p)) }
pub proof fn lemma_rm_decomp(p: Seq<char>)
    requires last_index_of(p, '{') >= 0, rm_close(p) >= 0
    ensures p == rm_first(p) + grp(rm_inner(p)) + rm_last(p), brace_free(rm_inner(p)), no_char(rm_last(p), '{'),
        rm_alts(p) == split_commas(rm_inner(p)),
        forall|a: int| 0 <= a < rm_alts(p).len() ==> #[trigger] rm_expand(p, a) == rm_first(p) + split_commas(rm_inner(p))[a] + rm_last(p),
{
    let r = last_index_of(p, '{');
    lemma_last_index_of(p, '{');
    let rest = rm_rest(p);
    let rc = rm_close(p);
    lemma_first_index_of(rest, '}');
    let i2 = rm_inner(p);
    let last = rm_last(p);
    assert(rest[0] == p[r]);
    assert(rc >= 1);
    assert forall|x: int| 0 <= x < i2.len() implies i2[x] != '{' && i2[x] != '}' by { assert(i2[x] == rest[x + 1]); assert(rest[x + 1] == p[r + 1 + x]); }
    assert forall|x: int| 0 <= x < last.len() implies last[x] != '{' by { assert(last[x] == p[r + rc + 1 + x]); }
    assert(rest =~= grp(i2) + last) by {
        assert forall|x: int| 0 <= x < rest.len() implies rest[x] == (grp(i2) + last)[x] by {
            if x == 0 { } else if x < rc { assert(grp(i2)[x] == i2[x - 1]); } else if x == rc { assert(grp(i2)[x] == '}'); } else { }
        }
    }
    assert(p =~= rm_first(p) + rest);
    assert(p =~= rm_first(p) + grp(i2) + last);
}
pub proof fn lemma_balanced_rm(p: Seq<char>)
    requires balanced(p), is_brace_pat(p)
    ensures last_index_of(p, '{') >= 0, rm_close(p) >= 0,
        forall|a: int| 0 <= a < rm_alts(p).len() ==> balanced(#[trigger] rm_expand(p, a)),
{
    let r = last_index_of(p, '{');
    lemma_last_index_of(p, '{');
    if r < 0 {
        assert(no_char(p, '{')) by { assert forall|x: int| 0 <= x < p.len() implies p[x] != '{' by { if p[x] == '{' { assert(p.contains('{')); } } }
        lemma_scan_no_open(p, 0, 0);
        assert(!p.contains('}')) by { if p.contains('}') { let x = choose|x: int| 0 <= x < p.len() && p[x] == '}'; } }
        assert(false);
    }
    let first = rm_first(p);
    let rest = rm_rest(p);
    assert(p =~= first + rest);
    lemma_scan_concat(first, rest, 0, 0);
    let r1 = scan(first, 0, 0);
    assert(r1 >= 0 && scan(rest, 0, r1) == 0);
    let tail = rest.skip(1);
    assert(rest[0] == '{');
    assert(scan(rest, 0, r1) == scan(rest, 1, r1 + 1));
    lemma_scan_suffix(rest, 1, 1, r1 + 1);
    assert(scan(tail, 0, r1 + 1) == 0);
    lemma_first_index_of(rest, '}');
    let rc = rm_close(p);
    if rc < 0 {
        assert forall|x: int| 0 <= x < tail.len() implies tail[x] != '{' && tail[x] != '}' by { assert(tail[x] == rest[x + 1]); assert(rest[x + 1] == p[r + 1 + x]); }
        lemma_scan_plain(tail, 0, r1 + 1);
        assert(false);
    }
    lemma_rm_decomp(p);
    let i2 = rm_inner(p);
    let last = rm_last(p);
    let close = seq!['}'] + last;
    assert(tail =~= i2 + close);
    lemma_scan_concat(i2, close, 0, r1 + 1);
    lemma_scan_plain(i2, 0, r1 + 1);
    assert(scan(close, 0, r1 + 1) == 0);
    assert(close[0] == '}');
    assert(scan(close, 0, r1 + 1) == scan(close, 1, r1));
    lemma_scan_suffix(close, 1, 1, r1);
    assert(close.skip(1) =~= last);
    assert(scan(last, 0, r1) == 0);
    assert forall|a: int| 0 <= a < rm_alts(p).len() implies balanced(#[trigger] rm_expand(p, a)) by {
        let alt = split_commas(i2)[a];
        lemma_split_commas_plain(i2, a);
        let q = rm_expand(p, a);
        assert(q =~= first + (alt + last));
        lemma_scan_concat(first, alt + last, 0, 0);
        lemma_scan_concat(alt, last, 0, r1);
        lemma_scan_plain(alt, 0, r1);
    }
}

// ---- C04: a balanced brace pattern matches a name exactly when one string of its expansion matches it as a pattern in its own right
pub open spec fn exp_match(p: Seq<char>, name: Seq<char>) -> bool { exists|e: Seq<char>| #[trigger] dhas(p, e) && pmatch(e, name) }

pub proof fn lemma_not_brace_pat(q: Seq<char>)
    requires !is_brace_pat(q)
    ensures no_char(q, '{'), no_char(q, '}')
{
    assert forall|x: int| 0 <= x < q.len() implies q[x] != '{' && q[x] != '}' by {
        if q[x] == '{' { assert(q.contains('{')); }
        if q[x] == '}' { assert(q.contains('}')); }
    }
}
pub proof fn theorem_expansion(p: Seq<char>, name: Seq<char>)
    requires balanced(p), is_brace_pat(p)
    ensures pmatch(p, name) <==> exp_match(p, name)
    decreases count_c(p, '{')
{
    lemma_balanced_rm(p);
    lemma_rm_decomp(p);
    let u = rm_first(p);
    let i2 = rm_inner(p);
    let v = rm_last(p);
    if pmatch(p, name) {
        let a = choose|a: int| 0 <= a < rm_alts(p).len() && count_c(#[trigger] rm_expand(p, a), '{') < count_c(p, '{') && pmatch(rm_expand(p, a), name);
        let q = rm_expand(p, a);
        let e = if is_brace_pat(q) {
            theorem_expansion(q, name);
            choose|e: Seq<char>| #[trigger] dhas(q, e) && pmatch(e, name)
        } else {
            lemma_not_brace_pat(q);
            lemma_dhas_plain(q, q);
            q
        };
        assert(cx(u, i2, v, e, a));
        lemma_ctx_bwd(u, i2, v, e, a);
        assert(dhas(p, e) && pmatch(e, name));
    }
    if exp_match(p, name) {
        let e = choose|e: Seq<char>| #[trigger] dhas(p, e) && pmatch(e, name);
        lemma_ctx_fwd(u, i2, v, e);
        let b = choose|b: int| #[trigger] cx(u, i2, v, e, b);
        let q = rm_expand(p, b);
        lemma_expand_fewer(p, b);
        if is_brace_pat(q) {
            theorem_expansion(q, name);
            assert(dhas(q, e) && pmatch(e, name));
        } else {
            lemma_not_brace_pat(q);
            lemma_dhas_plain(q, e);
        }
        assert(pmatch(q, name));
    }
}
/// the expansion of a balanced pattern is not empty, and its strings contain no braces: they are dewey, glob or plain patterns
pub proof fn theorem_expansion_shape(p: Seq<char>)
    requires balanced(p)
    ensures exists|e: Seq<char>| dhas(p, e), forall|e: Seq<char>| #[trigger] dhas(p, e) ==> !is_brace_pat(e)
    decreases count_c(p, '{')
{
    if !is_brace_pat(p) {
        lemma_not_brace_pat(p);
        lemma_dhas_plain(p, p);
        assert forall|e: Seq<char>| #[trigger] dhas(p, e) implies !is_brace_pat(e) by { lemma_dhas_plain(p, e); }
    } else {
        lemma_balanced_rm(p);
        lemma_rm_decomp(p);
        let u = rm_first(p);
        let i2 = rm_inner(p);
        let v = rm_last(p);
        lemma_split_commas_nonempty(i2);
        let q0 = rm_expand(p, 0);
        lemma_expand_fewer(p, 0);
        theorem_expansion_shape(q0);
        let e0 = choose|e: Seq<char>| dhas(q0, e);
        assert(cx(u, i2, v, e0, 0));
        lemma_ctx_bwd(u, i2, v, e0, 0);
        assert forall|e: Seq<char>| #[trigger] dhas(p, e) implies !is_brace_pat(e) by {
            lemma_ctx_fwd(u, i2, v, e);
            let b = choose|b: int| #[trigger] cx(u, i2, v, e, b);
            lemma_expand_fewer(p, b);
            theorem_expansion_shape(rm_expand(p, b));
        }
    }
}
/// C04 end to end, from the contracts of the real functions: `compiled` is what Pattern::new's postcondition says about
/// `Pattern::new(p).is_ok()`, `r` what Pattern::matches' postcondition says about `.matches(name)` on the compiled pattern
pub proof fn theorem_c04(p: Seq<char>, name: Seq<char>, compiled: bool, r: bool)
    requires is_brace_pat(p), compiled == pvalid(p), compiled ==> r == pmatch(p, name)
    ensures compiled == balanced(p), compiled ==> (r <==> exp_match(p, name)),
        compiled ==> (forall|e: Seq<char>| #[trigger] dhas(p, e) ==> !is_brace_pat(e))
{
    if compiled {
        theorem_expansion(p, name);
        theorem_expansion_shape(p);
    }
}
// ---- net brace depth after the first k characters
pub open spec fn dep(s: Seq<char>, k: int) -> int decreases k {
    if k <= 0 || k > s.len() { 0 } else { dep(s, k - 1) + bdelta(s[k - 1]) }
}
pub proof fn lemma_dep_sub(s: Seq<char>, a: int, b: int, k: int)
    requires 0 <= a, 0 <= k, a + k <= b <= s.len()
    ensures dep(s.subrange(a, b), k) == dep(s, a + k) - dep(s, a)
    decreases k
{
    if k > 0 {
        lemma_dep_sub(s, a, b, k - 1);
        assert(s.subrange(a, b)[k - 1] == s[a + k - 1]);
    }
}
/// scan (pattern_spec.rs) in terms of the depth profile
pub proof fn lemma_scan_char(s: Seq<char>, k: int, d: int)
    requires 0 <= k <= s.len(), d >= 0
    ensures
        scan(s, k, d) >= 0 <==> (forall|x: int| k <= x <= s.len() ==> d + #[trigger] dep(s, x) - dep(s, k) >= 0),
        scan(s, k, d) >= 0 ==> scan(s, k, d) == d + dep(s, s.len() as int) - dep(s, k),
        scan(s, k, d) >= -1,
    decreases s.len() - k
{
    if k < s.len() {
        assert(dep(s, k + 1) == dep(s, k) + bdelta(s[k]));
        if s[k] == '}' && d <= 0 {
            assert(d + dep(s, k + 1) - dep(s, k) < 0);
        } else {
            let d2 = d + bdelta(s[k]);
            lemma_scan_char(s, k + 1, d2);
            assert(scan(s, k, d) == scan(s, k + 1, d2));
            if scan(s, k, d) >= 0 {
                assert forall|x: int| k <= x <= s.len() implies d + #[trigger] dep(s, x) - dep(s, k) >= 0 by {
                    if x > k { assert(d2 + dep(s, x) - dep(s, k + 1) >= 0); }
                }
            }
            if forall|x: int| k <= x <= s.len() ==> d + #[trigger] dep(s, x) - dep(s, k) >= 0 {
                assert forall|x: int| k + 1 <= x <= s.len() implies d2 + #[trigger] dep(s, x) - dep(s, k + 1) >= 0 by {
                    assert(d + dep(s, x) - dep(s, k) >= 0);
                }
            }
        }
    }
}
pub proof fn lemma_balanced_char(s: Seq<char>)
    ensures balanced(s) <==> ((forall|x: int| 0 <= x <= s.len() ==> #[trigger] dep(s, x) >= 0) && dep(s, s.len() as int) == 0)
{
    lemma_scan_char(s, 0, 0);
}

/// close mode in terms of the depth profile: the first '}' reached at relative depth 1; before it the depth stays >= 1
pub proof fn lemma_seek_close_char(s: Seq<char>, k: int, d: int)
    requires 0 <= k <= s.len(), d >= 1
    ensures ({
        let j = seek(s, k, d, true);
        &&& (j >= 0 ==> k <= j < s.len() && s[j] == '}' && d + dep(s, j) - dep(s, k) == 1
                && (forall|x: int| k <= x <= j ==> d + #[trigger] dep(s, x) - dep(s, k) >= 1))
        &&& (j < 0 ==> (forall|x: int| k <= x <= s.len() ==> d + #[trigger] dep(s, x) - dep(s, k) >= 1))
    })
    decreases s.len() - k
{
    if k < s.len() {
        assert(dep(s, k + 1) == dep(s, k) + bdelta(s[k]));
        if s[k] == '}' && d == 1 {
        } else {
            let d2 = d + bdelta(s[k]);
            lemma_seek_close_char(s, k + 1, d2);
            let j = seek(s, k, d, true);
            assert(j == seek(s, k + 1, d2, true));
            if j >= 0 {
                assert forall|x: int| k <= x <= j implies d + #[trigger] dep(s, x) - dep(s, k) >= 1 by {
                    if x > k { assert(d2 + dep(s, x) - dep(s, k + 1) >= 1); }
                }
            } else {
                assert forall|x: int| k <= x <= s.len() implies d + #[trigger] dep(s, x) - dep(s, k) >= 1 by {
                    if x > k { assert(d2 + dep(s, x) - dep(s, k + 1) >= 1); }
                }
            }
        }
    }
}
/// comma mode: the first ',' at relative depth 0, the depth not having dropped below 0 before
pub proof fn lemma_seek_comma_char(s: Seq<char>, k: int, d: int)
    requires 0 <= k <= s.len(), d >= 0
    ensures ({
        let j = seek(s, k, d, false);
        j >= 0 ==> k <= j < s.len() && s[j] == ',' && d + dep(s, j) - dep(s, k) == 0
    })
    decreases s.len() - k
{
    if k < s.len() {
        assert(dep(s, k + 1) == dep(s, k) + bdelta(s[k]));
        if s[k] == ',' && d == 0 {
        } else {
            let d2 = d + bdelta(s[k]);
            if d2 >= 0 { lemma_seek_comma_char(s, k + 1, d2); }
            else { assert(seek(s, k + 1, d2, false) == -1); }
        }
    }
}
/// the first group of a balanced text: it closes, its interior is balanced, so is the rest, and nothing but plain text precedes it
pub proof fn lemma_balanced_struct(p: Seq<char>)
    requires balanced(p), first_index_of(p, '{') >= 0
    ensures ({
        let i = first_index_of(p, '{');
        let j = seek(p, i + 1, 1, true);
        &&& 0 <= i < j < p.len()
        &&& brace_free(p.take(i))
        &&& balanced(p.subrange(i + 1, j))
        &&& balanced(p.skip(j + 1))
    })
{
    let i = first_index_of(p, '{');
    lemma_first_index_of(p, '{');
    lemma_balanced_char(p);
    let n = p.len() as int;
    // no '{' before i: the depth cannot rise, and it cannot fall
    assert forall|x: int| 0 <= x <= i implies dep(p, x) == 0 by { lemma_dep_flat(p, x); }
    assert forall|x: int| 0 <= x < i implies p.take(i)[x] != '{' && p.take(i)[x] != '}' by {
        assert(dep(p, x + 1) == dep(p, x) + bdelta(p[x]));
        assert(dep(p, x + 1) == 0 && dep(p, x) == 0);
    }
    assert(dep(p, i + 1) == dep(p, i) + bdelta(p[i]));
    lemma_seek_close_char(p, i + 1, 1);
    let j = seek(p, i + 1, 1, true);
    if j < 0 { assert(1 + dep(p, n) - dep(p, i + 1) >= 1); }
    assert(dep(p, j + 1) == dep(p, j) + bdelta(p[j]));
    let inner = p.subrange(i + 1, j);
    lemma_balanced_char(inner);
    assert forall|x: int| 0 <= x <= inner.len() implies #[trigger] dep(inner, x) >= 0 by {
        lemma_dep_sub(p, i + 1, j, x);
        assert(1 + dep(p, i + 1 + x) - dep(p, i + 1) >= 1);
    }
    lemma_dep_sub(p, i + 1, j, j - i - 1);
    let rest = p.skip(j + 1);
    assert(rest =~= p.subrange(j + 1, n));
    lemma_balanced_char(rest);
    assert forall|x: int| 0 <= x <= rest.len() implies #[trigger] dep(rest, x) >= 0 by {
        lemma_dep_sub(p, j + 1, n, x);
        assert(dep(p, j + 1 + x) >= 0);
    }
    lemma_dep_sub(p, j + 1, n, n - j - 1);
}
/// before the first '{' the depth is <= 0 everywhere; with the lower bound of a balanced text it is 0
pub proof fn lemma_dep_flat(p: Seq<char>, x: int)
    requires 0 <= x <= first_index_of(p, '{') || (first_index_of(p, '{') < 0 && 0 <= x <= p.len())
    ensures dep(p, x) <= 0
    decreases x
{
    lemma_first_index_of(p, '{');
    if x > 0 { lemma_dep_flat(p, x - 1); assert(p[x - 1] != '{'); }
}

/// the alternatives of a balanced interior are balanced
pub proof fn lemma_alts_balanced(s: Seq<char>)
    requires balanced(s)
    ensures forall|k: int| 0 <= k < split_top(s).len() ==> balanced(#[trigger] split_top(s)[k])
    decreases s.len()
{
    let c = seek(s, 0, 0, false);
    let n = s.len() as int;
    if !(c < 0 || c >= n) {
        lemma_seek_comma_char(s, 0, 0);
        lemma_balanced_char(s);
        let a = s.take(c);
        let t = s.skip(c + 1);
        assert(a =~= s.subrange(0, c));
        assert(t =~= s.subrange(c + 1, n));
        lemma_balanced_char(a);
        lemma_balanced_char(t);
        assert(dep(s, c + 1) == dep(s, c) + bdelta(s[c]));
        assert forall|x: int| 0 <= x <= a.len() implies #[trigger] dep(a, x) >= 0 by { lemma_dep_sub(s, 0, c, x); assert(dep(s, x) >= 0); }
        lemma_dep_sub(s, 0, c, c);
        assert forall|x: int| 0 <= x <= t.len() implies #[trigger] dep(t, x) >= 0 by { lemma_dep_sub(s, c + 1, n, x); assert(dep(s, c + 1 + x) >= 0); }
        lemma_dep_sub(s, c + 1, n, n - c - 1);
        lemma_alts_balanced(t);
        let st = split_top(t);
        assert forall|k: int| 0 <= k < split_top(s).len() implies balanced(#[trigger] split_top(s)[k]) by {
            if k > 0 { assert(split_top(s)[k] == st[k - 1]); }
        }
    }
}
/// an alternative has no more '{' than the interior it is cut from
pub proof fn lemma_alts_count(s: Seq<char>)
    ensures forall|k: int| 0 <= k < split_top(s).len() ==> count_c(#[trigger] split_top(s)[k], '{') <= count_c(s, '{')
    decreases s.len()
{
    let c = seek(s, 0, 0, false);
    if !(c < 0 || c >= s.len()) {
        let a = s.take(c);
        let t = s.skip(c + 1);
        assert(s =~= a + seq![s[c]] + t);
        lemma_count_concat(a, seq![s[c]], '{');
        lemma_count_concat(a + seq![s[c]], t, '{');
        lemma_alts_count(t);
        let st = split_top(t);
        assert forall|k: int| 0 <= k < split_top(s).len() implies count_c(#[trigger] split_top(s)[k], '{') <= count_c(s, '{') by {
            if k > 0 { assert(split_top(s)[k] == st[k - 1]); }
        }
    }
}
/// an event found inside x is the event found in x + y
pub proof fn lemma_seek_prefix(x: Seq<char>, y: Seq<char>, k: int, d: int, close: bool)
    requires 0 <= k, seek(x, k, d, close) >= 0
    ensures seek(x + y, k, d, close) == seek(x, k, d, close)
    decreases x.len() - k
{
    if k < x.len() {
        assert((x + y)[k] == x[k]);
        if !(!close && d < 0) && !(close && x[k] == '}' && d == 1) && !(!close && x[k] == ',' && d == 0) {
            lemma_seek_prefix(x, y, k + 1, d + bdelta(x[k]), close);
        }
    }
}
pub proof fn lemma_balanced_concat(x: Seq<char>, y: Seq<char>)
    requires balanced(x), balanced(y)
    ensures balanced(x + y)
{
    lemma_scan_concat(x, y, 0, 0);
}
pub proof fn lemma_balanced_plain(x: Seq<char>)
    requires brace_free(x)
    ensures balanced(x)
{
    lemma_scan_plain(x, 0, 0);
}

// ---- the expansion of x + c for a balanced x: an expansion of x followed by an expansion of c
pub open spec fn wit2(m: int) -> bool { true }
pub open spec fn cat_rhs(x: Seq<char>, c: Seq<char>, e: Seq<char>) -> bool {
    exists|m: int| #[trigger] wit2(m) && 0 <= m <= e.len() && dhas(x, e.take(m)) && dhas(c, e.skip(m))
}
pub proof fn lemma_cat_shape(x: Seq<char>, c: Seq<char>, i: int, j: int)
    requires 0 <= i < j < x.len()
    ensures (x + c).take(i) == x.take(i), (x + c).subrange(i + 1, j) == x.subrange(i + 1, j), (x + c).skip(j + 1) == x.skip(j + 1) + c
{
    let w = x + c;
    assert(w.take(i) =~= x.take(i));
    assert(w.subrange(i + 1, j) =~= x.subrange(i + 1, j));
    assert(w.skip(j + 1) =~= x.skip(j + 1) + c);
}
pub proof fn lemma_take_shapes(e: Seq<char>, i: int, m1: int, m2: int)
    requires 0 <= i <= m1, 0 <= m2, m1 + m2 <= e.len()
    ensures ({
        let m = m1 + m2;
        &&& e.take(m).take(i) == e.take(i)
        &&& e.take(m).subrange(i, m1) == e.subrange(i, m1)
        &&& e.take(m).skip(m1) == e.skip(m1).take(m2)
        &&& e.skip(m) == e.skip(m1).skip(m2)
    })
{
    let m = m1 + m2;
    assert(e.take(m).take(i) =~= e.take(i));
    assert(e.take(m).subrange(i, m1) =~= e.subrange(i, m1));
    assert(e.take(m).skip(m1) =~= e.skip(m1).take(m2));
    assert(e.skip(m) =~= e.skip(m1).skip(m2));
}
pub proof fn lemma_dhas_concat_fwd(x: Seq<char>, c: Seq<char>, e: Seq<char>)
    requires balanced(x), dhas(x + c, e)
    ensures cat_rhs(x, c, e)
    decreases x.len()
{
    let i = first_index_of(x, '{');
    lemma_first_index_of(x, '{');
    let w = x + c;
    if i < 0 {
        lemma_dhas_prefix(x, c, e);
        lemma_dhas_plain(x, e.take(x.len() as int));
        assert(wit2(x.len() as int));
    } else {
        lemma_balanced_struct(x);
        let j = seek(x, i + 1, 1, true);
        lemma_first_index_concat(x, c, '{');
        lemma_seek_prefix(x, c, i + 1, 1, true);
        lemma_cat_shape(x, c, i, j);
        lemma_dhas_unfold(w, e);
        let (k, m1) = choose|k: int, m: int| #[trigger] wit(k, m) && dstep(w, e, i, j, k, m);
        let r = x.skip(j + 1);
        lemma_dhas_concat_fwd(r, c, e.skip(m1));
        let m2 = choose|m: int| #[trigger] wit2(m) && 0 <= m <= e.skip(m1).len() && dhas(r, e.skip(m1).take(m)) && dhas(c, e.skip(m1).skip(m));
        let m = m1 + m2;
        lemma_take_shapes(e, i, m1, m2);
        lemma_dhas_unfold(x, e.take(m));
        lemma_alt_shorter(x, i, j, k);
        assert(wit(k, m1) && dstep(x, e.take(m), i, j, k, m1));
        assert(wit2(m));
    }
}
pub proof fn lemma_dhas_concat_bwd(x: Seq<char>, c: Seq<char>, e: Seq<char>, m: int)
    requires balanced(x), 0 <= m <= e.len(), dhas(x, e.take(m)), dhas(c, e.skip(m))
    ensures dhas(x + c, e)
    decreases x.len()
{
    let i = first_index_of(x, '{');
    lemma_first_index_of(x, '{');
    let w = x + c;
    if i < 0 {
        lemma_dhas_plain(x, e.take(m));
        lemma_dhas_prefix(x, c, e);
    } else {
        lemma_balanced_struct(x);
        let j = seek(x, i + 1, 1, true);
        lemma_first_index_concat(x, c, '{');
        lemma_seek_prefix(x, c, i + 1, 1, true);
        lemma_cat_shape(x, c, i, j);
        lemma_dhas_unfold(x, e.take(m));
        let (k, m1) = choose|k: int, mm: int| #[trigger] wit(k, mm) && dstep(x, e.take(m), i, j, k, mm);
        let m2 = m - m1;
        lemma_take_shapes(e, i, m1, m2);
        let r = x.skip(j + 1);
        lemma_dhas_concat_bwd(r, c, e.skip(m1), m2);
        lemma_dhas_unfold(w, e);
        lemma_alt_shorter(w, i, j, k);
        assert(wit(k, m1) && dstep(w, e, i, j, k, m1));
    }
}

// ---- the operational csh expansion, left to right: substitute one alternative of the FIRST group, expand the result further
pub open spec fn sub_alt(p: Seq<char>, i: int, j: int, k: int) -> Seq<char> { p.take(i) + split_top(p.subrange(i + 1, j))[k] + p.skip(j + 1) }
pub open spec fn wit1(k: int) -> bool { true }
pub open spec fn csh_has(p: Seq<char>, e: Seq<char>) -> bool decreases count_c(p, '{') {
    let i = first_index_of(p, '{');
    if i < 0 || i >= p.len() { p == e }
    else {
        let j = seek(p, i + 1, 1, true);
        if j < 0 || j >= p.len() { false }
        else {
            exists|k: int| #[trigger] wit1(k) && 0 <= k < split_top(p.subrange(i + 1, j)).len()
                && count_c(sub_alt(p, i, j, k), '{') < count_c(p, '{') && csh_has(sub_alt(p, i, j, k), e)
        }
    }
}
/// substituting an alternative of the first group of a balanced text: balanced again, with fewer '{'
pub proof fn lemma_sub_alt(p: Seq<char>, k: int)
    requires balanced(p), first_index_of(p, '{') >= 0,
        0 <= k < split_top(p.subrange(first_index_of(p, '{') + 1, seek(p, first_index_of(p, '{') + 1, 1, true))).len()
    ensures ({
        let i = first_index_of(p, '{');
        let j = seek(p, i + 1, 1, true);
        &&& balanced(sub_alt(p, i, j, k))
        &&& count_c(sub_alt(p, i, j, k), '{') < count_c(p, '{')
        &&& balanced(split_top(p.subrange(i + 1, j))[k])
        &&& balanced(p.skip(j + 1))
        &&& brace_free(p.take(i))
    })
{
    let i = first_index_of(p, '{');
    let j = seek(p, i + 1, 1, true);
    lemma_balanced_struct(p);
    lemma_first_index_of(p, '{');
    let a = p.take(i);
    let inner = p.subrange(i + 1, j);
    let c = p.skip(j + 1);
    let alt = split_top(inner)[k];
    lemma_alts_balanced(inner);
    lemma_alts_count(inner);
    lemma_balanced_plain(a);
    lemma_balanced_concat(a, alt);
    lemma_balanced_concat(a + alt, c);
    // counting '{'
    let open = seq![p[i]];
    let close = seq![p[j]];
    assert(p =~= a + open + inner + close + c);
    lemma_count_concat(a, open, '{');
    lemma_count_concat(a + open, inner, '{');
    lemma_count_concat(a + open + inner, close, '{');
    lemma_count_concat(a + open + inner + close, c, '{');
    lemma_count_concat(a, alt, '{');
    lemma_count_concat(a + alt, c, '{');
    assert(count_c(open, '{') == 1) by { reveal_with_fuel(count_c, 2); assert(open.drop_last() =~= Seq::<char>::empty()); }
}
/// one substitution step preserves the denotation, in both directions
pub proof fn lemma_step_fwd(p: Seq<char>, k: int, e: Seq<char>)
    requires balanced(p), first_index_of(p, '{') >= 0,
        0 <= k < split_top(p.subrange(first_index_of(p, '{') + 1, seek(p, first_index_of(p, '{') + 1, 1, true))).len(),
        dhas(sub_alt(p, first_index_of(p, '{'), seek(p, first_index_of(p, '{') + 1, 1, true), k), e)
    ensures dhas(p, e)
{
    let i = first_index_of(p, '{');
    let j = seek(p, i + 1, 1, true);
    lemma_sub_alt(p, k);
    lemma_balanced_struct(p);
    let a = p.take(i);
    let c = p.skip(j + 1);
    let alt = split_top(p.subrange(i + 1, j))[k];
    let q = sub_alt(p, i, j, k);
    assert(q =~= a + (alt + c));
    lemma_dhas_prefix(a, alt + c, e);
    lemma_dhas_concat_fwd(alt, c, e.skip(i));
    let m2 = choose|m: int| #[trigger] wit2(m) && 0 <= m <= e.skip(i).len() && dhas(alt, e.skip(i).take(m)) && dhas(c, e.skip(i).skip(m));
    assert(e.skip(i).take(m2) =~= e.subrange(i, i + m2));
    assert(e.skip(i).skip(m2) =~= e.skip(i + m2));
    lemma_alt_shorter(p, i, j, k);
    lemma_dhas_unfold(p, e);
    assert(wit(k, i + m2) && dstep(p, e, i, j, k, i + m2));
}
pub proof fn lemma_step_bwd(p: Seq<char>, k: int, m: int, e: Seq<char>)
    requires balanced(p), first_index_of(p, '{') >= 0, e.len() >= first_index_of(p, '{'),
        e.take(first_index_of(p, '{')) == p.take(first_index_of(p, '{')),
        dstep(p, e, first_index_of(p, '{'), seek(p, first_index_of(p, '{') + 1, 1, true), k, m)
    ensures dhas(sub_alt(p, first_index_of(p, '{'), seek(p, first_index_of(p, '{') + 1, 1, true), k), e)
{
    let i = first_index_of(p, '{');
    let j = seek(p, i + 1, 1, true);
    lemma_sub_alt(p, k);
    lemma_balanced_struct(p);
    let a = p.take(i);
    let c = p.skip(j + 1);
    let alt = split_top(p.subrange(i + 1, j))[k];
    let q = sub_alt(p, i, j, k);
    assert(e.skip(i).take(m - i) =~= e.subrange(i, m));
    assert(e.skip(i).skip(m - i) =~= e.skip(m));
    lemma_dhas_concat_bwd(alt, c, e.skip(i), m - i);
    assert(q =~= a + (alt + c));
    lemma_dhas_prefix(a, alt + c, e);
}
/// C04, the two readings of "csh-style brace expansion" coincide on balanced patterns: the left-to-right substitution process
/// reaches exactly the strings of the denotation dhas
pub proof fn theorem_csh(p: Seq<char>, e: Seq<char>)
    requires balanced(p)
    ensures csh_has(p, e) <==> dhas(p, e)
    decreases count_c(p, '{')
{
    let i = first_index_of(p, '{');
    lemma_first_index_of(p, '{');
    if i >= 0 {
        lemma_balanced_struct(p);
        let j = seek(p, i + 1, 1, true);
        let alts = split_top(p.subrange(i + 1, j));
        if csh_has(p, e) {
            let k = choose|k: int| #[trigger] wit1(k) && 0 <= k < alts.len() && count_c(sub_alt(p, i, j, k), '{') < count_c(p, '{') && csh_has(sub_alt(p, i, j, k), e);
            lemma_sub_alt(p, k);
            theorem_csh(sub_alt(p, i, j, k), e);
            lemma_step_fwd(p, k, e);
        }
        if dhas(p, e) {
            lemma_dhas_unfold(p, e);
            let (k, m) = choose|k: int, m: int| #[trigger] wit(k, m) && dstep(p, e, i, j, k, m);
            lemma_sub_alt(p, k);
            lemma_step_bwd(p, k, m, e);
            theorem_csh(sub_alt(p, i, j, k), e);
            assert(wit1(k));
        }
    }
}
/// C04 in the operational reading: a balanced brace pattern matches a name exactly when one of the strings the left-to-right csh
/// substitution process ends in matches it as a pattern in its own right
pub proof fn theorem_c04_csh(p: Seq<char>, name: Seq<char>)
    requires balanced(p), is_brace_pat(p)
    ensures pmatch(p, name) <==> (exists|e: Seq<char>| #[trigger] csh_has(p, e) && pmatch(e, name))
{
    theorem_expansion(p, name);
    if pmatch(p, name) {
        let e = choose|e: Seq<char>| #[trigger] dhas(p, e) && pmatch(e, name);
        theorem_csh(p, e);
    }
    if exists|e: Seq<char>| #[trigger] csh_has(p, e) && pmatch(e, name) {
        let e = choose|e: Seq<char>| #[trigger] csh_has(p, e) && pmatch(e, name);
        theorem_csh(p, e);
    }
}
