// lib/dewey_match_spec.rs -- statement of C02 as spec functions over character sequences.
pub struct OpAt { pub pos: int, pub end: int, pub op: DeweyOp }   // char indices of the operator and of the bound's first char

/// the operator starting at char k (cs[k] is '>' or '<'), with its optional '='
pub open spec fn op_at(cs: Seq<char>, k: int) -> OpAt {
    let eq = k + 1 < cs.len() && cs[k + 1] == '=';
    if cs[k] == '>' {
        if eq { OpAt { pos: k, end: k + 2, op: DeweyOp::GE } } else { OpAt { pos: k, end: k + 1, op: DeweyOp::GT } }
    } else {
        if eq { OpAt { pos: k, end: k + 2, op: DeweyOp::LE } } else { OpAt { pos: k, end: k + 1, op: DeweyOp::LT } }
    }
}
/// every '<' / '>' of the pattern, left to right
pub open spec fn dewey_ops(cs: Seq<char>) -> Seq<OpAt> { Seq::new(ops_from(cs, 0).len(), |j: int| op_at(cs, ops_from(cs, 0)[j])) }
pub open spec fn is_lower_op(op: DeweyOp) -> bool { op == DeweyOp::GT || op == DeweyOp::GE }
pub open spec fn is_upper_op(op: DeweyOp) -> bool { op == DeweyOp::LT || op == DeweyOp::LE }
/// one operator, or a lower bound followed by an upper bound
pub open spec fn dewey_valid(cs: Seq<char>) -> bool {
    let o = dewey_ops(cs);
    o.len() == 1 || (o.len() == 2 && is_lower_op(o[0].op) && is_upper_op(o[1].op))
}
pub open spec fn dewey_base(cs: Seq<char>) -> Seq<char> { cs.take(dewey_ops(cs)[0].pos) }
pub open spec fn dewey_bound_text(cs: Seq<char>, i: int) -> Seq<char> {
    let o = dewey_ops(cs);
    cs.subrange(o[i].end, if i + 1 < o.len() { o[i + 1].pos } else { cs.len() as int })
}
pub struct Bound { pub op: DeweyOp, pub t: Tok }
pub open spec fn dewey_bounds(cs: Seq<char>) -> Seq<Bound> {
    Seq::new(dewey_ops(cs).len(), |i: int| Bound { op: dewey_ops(cs)[i].op, t: vtok(dewey_bound_text(cs, i)) })
}
pub open spec fn tcmp(a: Tok, b: Tok) -> int { cmp3(a.v, a.rev, b.v, b.rev) }
/// statement: the text before the name's last '-' equals BASE and the text after it satisfies every bound;
/// a name without '-' never matches
pub open spec fn dmatch(base: Seq<char>, bounds: Seq<Bound>, name: Seq<char>) -> bool {
    let j = last_index_of(name, '-');
    j >= 0 && name.take(j) == base
    && forall|i: int| 0 <= i < bounds.len() ==> op_holds(#[trigger] bounds[i].op, tcmp(vtok(name.skip(j + 1)), bounds[i].t))
}
/// a (valid) dewey pattern string matches a package name
pub open spec fn dewey_pattern_matches(p: Seq<char>, name: Seq<char>) -> bool {
    dewey_valid(p) && dmatch(dewey_base(p), dewey_bounds(p), name)
}

pub proof fn lemma_ops_from(cs: Seq<char>, from: int)
    requires 0 <= from
    ensures forall|j: int| 0 <= j < ops_from(cs, from).len() ==> from <= #[trigger] ops_from(cs, from)[j] < cs.len() && is_op_char(cs[ops_from(cs, from)[j]]),
        forall|i: int, j: int| 0 <= i < j < ops_from(cs, from).len() ==> ops_from(cs, from)[i] < ops_from(cs, from)[j],
    decreases cs.len() - from
{
    if from < cs.len() {
        lemma_ops_from(cs, from + 1);
        let rest = ops_from(cs, from + 1);
        if is_op_char(cs[from]) {
            let o = ops_from(cs, from);
            assert(o =~= seq![from] + rest);
            assert forall|j: int| 0 <= j < o.len() implies from <= #[trigger] o[j] < cs.len() && is_op_char(cs[o[j]]) by { if j > 0 { assert(o[j] == rest[j - 1]); } }
            assert forall|i: int, j: int| 0 <= i < j < o.len() implies o[i] < o[j] by { assert(o[j] == rest[j - 1]); if i > 0 { assert(o[i] == rest[i - 1]); } }
        }
    }
}
