// lib/distinfo_roundtrip.rs -- C10: parse_distinfo(print_distinfo(v)) == v for every canonical distinfo value v, proved over the
// spec functions that Distinfo::from_bytes (== parse_distinfo) and Distinfo::as_bytes (== print_distinfo) are proved equal to.
// Included at the end of unit distinfo; no code of /repo appears here.

pub open spec fn no_ws(b: Seq<u8>) -> bool { forall|i: int| 0 <= i < b.len() ==> !aws(#[trigger] b[i]) }
/// a file name: any non-whitespace bytes (UTF-8 or not)
pub open spec fn good_name(n: Seq<u8>) -> bool { no_ws(n) }
/// a recorded hash: non-empty ASCII text without blanks
pub open spec fn good_hash(h: Seq<char>) -> bool { h.len() > 0 && is_ascii_chars(h) && no_ws(encode_utf8(h)) }

// ---- bytes: lines and fields
pub proof fn lemma_first_byte_concat(a: Seq<u8>, b: Seq<u8>, c: u8)
    requires !a.contains(c)
    ensures first_byte(a + b, c) == (if first_byte(b, c) < 0 { -1 } else { a.len() + first_byte(b, c) })
    decreases a.len()
{
    if a.len() == 0 { assert(a + b =~= b); }
    else {
        assert(a[0] != c) by { if a[0] == c { assert(a.contains(c)); } }
        assert((a + b).skip(1) =~= a.skip(1) + b);
        assert(!a.skip(1).contains(c)) by { if a.skip(1).contains(c) { let k = choose|k: int| 0 <= k < a.skip(1).len() && a.skip(1)[k] == c; assert(a[k + 1] == c); assert(a.contains(c)); } }
        lemma_first_byte_concat(a.skip(1), b, c);
        assert((a + b)[0] == a[0]);
    }
}
pub proof fn lemma_split_nl_cons(l: Seq<u8>, rest: Seq<u8>)
    requires !l.contains(10u8)
    ensures split_nl(l + seq![10u8] + rest) == seq![l] + split_nl(rest)
{
    let t = l + seq![10u8] + rest;
    let nl = seq![10u8] + rest;
    assert(t =~= l + nl);
    assert(first_byte(nl, 10u8) == 0);
    lemma_first_byte_concat(l, nl, 10u8);
    assert(t.take(l.len() as int) =~= l);
    assert(t.skip(l.len() as int + 1) =~= rest);
}
pub proof fn lemma_no_ws_no_nl(b: Seq<u8>) requires no_ws(b) ensures !b.contains(10u8)
{ if b.contains(10u8) { let k = choose|k: int| 0 <= k < b.len() && b[k] == 10u8; assert(aws(b[k])); } }
pub proof fn lemma_run_len_field(f: Seq<u8>, rest: Seq<u8>)
    requires no_ws(f), rest.len() == 0 || aws(rest[0])
    ensures run_len(f + rest) == f.len()
    decreases f.len()
{
    if f.len() == 0 { assert(f + rest =~= rest); }
    else {
        assert((f + rest)[0] == f[0]);
        assert((f + rest).skip(1) =~= f.skip(1) + rest);
        assert(no_ws(f.skip(1))) by { assert forall|i: int| 0 <= i < f.skip(1).len() implies !aws(#[trigger] f.skip(1)[i]) by { assert(f.skip(1)[i] == f[i + 1]); } }
        lemma_run_len_field(f.skip(1), rest);
    }
}
/// a non-empty field followed by nothing or by a blank
pub proof fn lemma_fields_cons(f: Seq<u8>, rest: Seq<u8>)
    requires f.len() > 0, no_ws(f), rest.len() == 0 || aws(rest[0])
    ensures ws_fields(f + rest) == seq![f] + ws_fields(rest)
{
    let b = f + rest;
    assert(b[0] == f[0]);
    lemma_run_len_field(f, rest);
    assert(b.take(f.len() as int) =~= f);
    assert(b.skip(f.len() as int) =~= rest);
}
pub proof fn lemma_fields_sp(rest: Seq<u8>)
    ensures ws_fields(seq![0x20u8] + rest) == ws_fields(rest)
{
    let b = seq![0x20u8] + rest;
    assert(aws(b[0]));
    assert(b.skip(1) =~= rest);
}
/// `f0 f1 f2 f3` separated by single spaces, optionally followed by ` f4`
pub proof fn lemma_fields4(f0: Seq<u8>, f1: Seq<u8>, f2: Seq<u8>, f3: Seq<u8>, tail: Seq<u8>)
    requires f0.len() > 0, f1.len() > 0, f2.len() > 0, f3.len() > 0, no_ws(f0), no_ws(f1), no_ws(f2), no_ws(f3),
        tail.len() == 0 || (tail.len() > 1 && tail[0] == 0x20u8 && no_ws(tail.skip(1)))
    ensures ({
        let fs = ws_fields(f0 + seq![0x20u8] + f1 + seq![0x20u8] + f2 + seq![0x20u8] + f3 + tail);
        fs.len() >= 4 && fs[0] == f0 && fs[1] == f1 && fs[2] == f2 && fs[3] == f3
    })
{
    let sp = seq![0x20u8];
    let r3 = f3 + tail;
    let r2 = f2 + (sp + r3);
    let r1 = f1 + (sp + r2);
    let all = f0 + (sp + r1);
    assert(f0 + sp + f1 + sp + f2 + sp + f3 + tail =~= all);
    assert((sp + r1)[0] == 0x20u8 && (sp + r2)[0] == 0x20u8 && (sp + r3)[0] == 0x20u8);
    lemma_fields_cons(f0, sp + r1); lemma_fields_sp(r1);
    lemma_fields_cons(f1, sp + r2); lemma_fields_sp(r2);
    lemma_fields_cons(f2, sp + r3); lemma_fields_sp(r3);
    lemma_fields_cons(f3, tail);
}
pub proof fn lemma_trim_ws_id(b: Seq<u8>) requires b.len() == 0 || !aws(b[0]) ensures trim_ws(b) == b {}

// ---- the six algorithm names
pub proof fn lemma_digest_name(d: Digest)
    ensures ({
        let dn = digest_name(d);
        &&& is_ascii_chars(dn) && dn.len() > 0 && no_ws(encode_utf8(dn)) && encode_utf8(dn).len() == dn.len()
        &&& encode_utf8(dn)[0] != 0x24u8 && encode_utf8(dn)[0] != 0x23u8
        &&& dn != "Size"@
        &&& digest_of_name(dn) == Some(d)
        &&& valid_utf8(encode_utf8(dn)) && decode_utf8(encode_utf8(dn)) == dn
    })
{
    reveal_strlit("BLAKE2s"); reveal_strlit("MD5"); reveal_strlit("RMD160"); reveal_strlit("SHA1"); reveal_strlit("SHA256"); reveal_strlit("SHA512");
    reveal_strlit("blake2s"); reveal_strlit("md5"); reveal_strlit("rmd160"); reveal_strlit("sha1"); reveal_strlit("sha256"); reveal_strlit("sha512");
    reveal_strlit("Size");
    let dn = digest_name(d);
    assert(is_ascii_chars(dn));
    is_ascii_chars_encode_utf8(dn);
    encode_utf8_valid_utf8(dn);
    encode_utf8_decode_utf8(dn);
    axiom_ulower_ascii(dn);
    let l = lower_seq(dn);
    match d {
        Digest::BLAKE2s => { assert(l =~= "blake2s"@); }
        Digest::MD5 => { assert(l =~= "md5"@); assert("md5"@.len() != "blake2s"@.len()); }
        Digest::RMD160 => { assert(l =~= "rmd160"@); assert("rmd160"@.len() != "blake2s"@.len()); assert("rmd160"@.len() != "md5"@.len()); }
        Digest::SHA1 => { assert(l =~= "sha1"@); assert("sha1"@.len() != "blake2s"@.len()); assert("sha1"@.len() != "md5"@.len()); assert("sha1"@.len() != "rmd160"@.len()); }
        Digest::SHA256 => { assert(l =~= "sha256"@); assert("sha256"@.len() != "blake2s"@.len()); assert("sha256"@.len() != "md5"@.len()); assert("sha256"@[0] != "rmd160"@[0]); assert("sha256"@.len() != "sha1"@.len()); }
        Digest::SHA512 => { assert(l =~= "sha512"@); assert("sha512"@.len() != "blake2s"@.len()); assert("sha512"@.len() != "md5"@.len()); assert("sha512"@[0] != "rmd160"@[0]); assert("sha512"@.len() != "sha1"@.len()); assert("sha512"@[3] != "sha256"@[3]); }
    }
    assert(dn != "Size"@) by { assert(dn[0] != "Size"@[0] || dn.len() != "Size"@.len() || dn[1] != "Size"@[1]); }
}

// ---- one printed line parses to the value it was printed from
pub open spec fn SP() -> Seq<u8> { seq![0x20u8] }
pub open spec fn paren(name: Seq<u8>) -> Seq<u8> { seq![0x28u8] + name + seq![0x29u8] }
pub proof fn lemma_paren(name: Seq<u8>)
    requires good_name(name)
    ensures is_paren(paren(name)), no_ws(paren(name)), paren(name).len() > 0, paren(name).subrange(1, paren(name).len() - 1) == name
{
    let p = paren(name);
    assert(p.len() == name.len() + 2);
    assert(p[0] == 0x28u8 && p.last() == 0x29u8);
    assert forall|i: int| 0 <= i < p.len() implies !aws(#[trigger] p[i]) by { if 0 < i < p.len() - 1 { assert(p[i] == name[i - 1]); } }
    assert(p.subrange(1, p.len() - 1) =~= name);
}
pub open spec fn sum_text(name: Seq<u8>, d: Digest, h: Seq<char>) -> Seq<u8> {
    encode_utf8(digest_name(d)) + SP() + paren(name) + SP() + seq![0x3du8] + SP() + encode_utf8(h)
}
pub proof fn lemma_sum_text(name: Seq<u8>, d: Digest, h: Seq<char>)
    requires good_name(name), good_hash(h)
    ensures
        sum_line(name, d, h) == sum_text(name, d, h) + seq![0x0au8],
        !sum_text(name, d, h).contains(10u8),
        line_spec(sum_text(name, d, h)) == LineV::Checksum(d, name, h),
{
    let l = sum_text(name, d, h);
    let f0 = encode_utf8(digest_name(d));
    let f1 = paren(name);
    let f2 = seq![0x3du8];
    let f3 = encode_utf8(h);
    lemma_digest_name(d);
    lemma_paren(name);
    is_ascii_chars_encode_utf8(h); encode_utf8_valid_utf8(h); encode_utf8_decode_utf8(h);
    assert(no_ws(f2));
    assert(sum_line(name, d, h) =~= l + seq![0x0au8]);
    assert(l =~= f0 + SP() + f1 + SP() + f2 + SP() + f3 + Seq::<u8>::empty());
    lemma_fields4(f0, f1, f2, f3, Seq::<u8>::empty());
    // no newline anywhere
    assert(!l.contains(10u8)) by {
        if l.contains(10u8) {
            let k = choose|k: int| 0 <= k < l.len() && l[k] == 10u8;
            lemma_piece_at(f0, f1, f2, f3, k);
        }
    }
    lemma_line_is_one(l);
    assert(l[0] == f0[0]);
    assert(!RCS_PREFIX().is_prefix_of(l)) by { if RCS_PREFIX().is_prefix_of(l) { assert(l[0] == RCS_PREFIX()[0]); } }
}
/// every byte of `f0 f1 f2 f3` is a byte of one of the fields or a single space
pub proof fn lemma_piece_at(f0: Seq<u8>, f1: Seq<u8>, f2: Seq<u8>, f3: Seq<u8>, k: int)
    requires no_ws(f0), no_ws(f1), no_ws(f2), no_ws(f3), 0 <= k < (f0 + SP() + f1 + SP() + f2 + SP() + f3).len()
    ensures (f0 + SP() + f1 + SP() + f2 + SP() + f3)[k] == 0x20u8 || !aws((f0 + SP() + f1 + SP() + f2 + SP() + f3)[k])
{
    let l = f0 + SP() + f1 + SP() + f2 + SP() + f3;
    let a = f0.len() as int; let b = a + 1 + f1.len(); let c = b + 1 + f2.len();
    if k < a { assert(l[k] == f0[k]); }
    else if k == a { }
    else if k < b { assert(l[k] == f1[k - a - 1]); }
    else if k == b { }
    else if k < c { assert(l[k] == f2[k - b - 1]); }
    else if k == c { }
    else { assert(l[k] == f3[k - c - 1]); }
}
/// a line without newline that starts with a non-blank, non-'#' byte is decided by one_line of itself
pub proof fn lemma_line_is_one(l: Seq<u8>)
    requires l.len() > 0, !aws(l[0]), l[0] != 0x23u8, !l.contains(10u8)
    ensures line_spec(l) == one_line(l)
{
    lemma_first_byte(l, 10u8);
    assert(first_byte(l, 10u8) < 0) by { if first_byte(l, 10u8) >= 0 { assert(l.contains(10u8)); } }
    assert(split_nl(l) =~= seq![l]);
    lemma_trim_ws_id(l);
}

pub open spec fn SIZE_W() -> Seq<u8> { seq![0x53u8, 0x69u8, 0x7au8, 0x65u8] }                 // "Size"
pub open spec fn BYTES_W() -> Seq<u8> { seq![0x62u8, 0x79u8, 0x74u8, 0x65u8, 0x73u8] }        // "bytes"
pub open spec fn size_text(name: Seq<u8>, n: int) -> Seq<u8> {
    SIZE_W() + SP() + paren(name) + SP() + seq![0x3du8] + SP() + encode_utf8(u64_text(n)) + (SP() + BYTES_W())
}
pub proof fn lemma_u64_text(n: u64)
    ensures u64_text(n as int).len() > 0, is_ascii_chars(u64_text(n as int)), no_ws(encode_utf8(u64_text(n as int))),
        valid_utf8(encode_utf8(u64_text(n as int))), decode_utf8(encode_utf8(u64_text(n as int))) == u64_text(n as int),
        u64_text_value(u64_text(n as int)) == Some(n as int)
{
    lemma_u64_text_value(n);
    let t = u64_text(n as int);
    is_ascii_chars_encode_utf8(t); encode_utf8_valid_utf8(t); encode_utf8_decode_utf8(t);
    let ds = if t.len() > 0 && t[0] == '+' { t.skip(1) } else { t };
    assert(ds.len() >= 1 && all_digits(ds));
    assert forall|i: int| 0 <= i < encode_utf8(t).len() implies !aws(#[trigger] encode_utf8(t)[i]) by {
        if t.len() > 0 && t[0] == '+' { if i > 0 { assert(is_digit(ds[i - 1])); assert(t[i] == ds[i - 1]); } }
        else { assert(is_digit(ds[i])); }
    }
}
pub proof fn lemma_size_text(name: Seq<u8>, n: u64)
    requires good_name(name)
    ensures
        size_line(name, n as int) == size_text(name, n as int) + seq![0x0au8],
        !size_text(name, n as int).contains(10u8),
        line_spec(size_text(name, n as int)) == LineV::Size(name, n as int),
{
    let l = size_text(name, n as int);
    let f0 = SIZE_W();
    let f1 = paren(name);
    let f2 = seq![0x3du8];
    let f3 = encode_utf8(u64_text(n as int));
    let tail = SP() + BYTES_W();
    lemma_paren(name);
    lemma_u64_text(n);
    reveal_strlit("Size");
    assert(is_ascii_chars("Size"@));
    is_ascii_chars_encode_utf8("Size"@); encode_utf8_valid_utf8("Size"@); encode_utf8_decode_utf8("Size"@);
    assert(encode_utf8("Size"@) =~= f0);
    assert(no_ws(f0)); assert(no_ws(f2));
    assert(tail.len() > 1 && tail[0] == 0x20u8);
    assert(tail.skip(1) =~= BYTES_W());
    assert(no_ws(tail.skip(1)));
    assert(size_line(name, n as int) =~= l + seq![0x0au8]);
    assert(l =~= f0 + SP() + f1 + SP() + f2 + SP() + f3 + tail);
    lemma_fields4(f0, f1, f2, f3, tail);
    assert(!l.contains(10u8)) by {
        if l.contains(10u8) {
            let k = choose|k: int| 0 <= k < l.len() && l[k] == 10u8;
            let body = f0 + SP() + f1 + SP() + f2 + SP() + f3;
            assert(l =~= body + tail);
            if k < body.len() { lemma_piece_at(f0, f1, f2, f3, k); assert(l[k] == body[k]); }
            else { assert(l[k] == tail[k - body.len()]); }
        }
    }
    lemma_line_is_one(l);
    assert(l[0] == f0[0]);
    assert(!RCS_PREFIX().is_prefix_of(l)) by { if RCS_PREFIX().is_prefix_of(l) { assert(l[0] == RCS_PREFIX()[0]); } }
}
/// the first line: a recorded RCS Id is kept byte for byte; the placeholder `$NetBSD$` is not an Id
pub open spec fn good_rcsid(s: Seq<u8>) -> bool { RCS_PREFIX().is_prefix_of(s) && !s.contains(10u8) }
pub proof fn lemma_rcs_line(s: Seq<u8>)
    requires good_rcsid(s)
    ensures line_spec(s) == LineV::RcsId(s)
{
    assert(s[0] == RCS_PREFIX()[0]);
    lemma_line_is_one(s);
}
pub proof fn lemma_placeholder_line()
    ensures line_spec(NETBSD_ID()) == LineV::None, !NETBSD_ID().contains(10u8)
{
    let l = NETBSD_ID();
    assert(!l.contains(10u8)) by { if l.contains(10u8) { let k = choose|k: int| 0 <= k < l.len() && l[k] == 10u8; } }
    lemma_line_is_one(l);
    assert(!RCS_PREFIX().is_prefix_of(l));
    assert(no_ws(l));
    assert(l =~= l + Seq::<u8>::empty());
    lemma_fields_cons(l, Seq::<u8>::empty());
    assert(ws_fields(l).len() == 1);
}
pub proof fn lemma_blank_line() ensures line_spec(Seq::<u8>::empty()) == LineV::None
{
    let e = Seq::<u8>::empty();
    assert(split_nl(e) =~= seq![e]);
    assert(trim_ws(e) == e);
    assert(first_line(seq![e], 0) == first_line(seq![e], 1));
}

// ---- folding over the lines of a text
pub open spec fn tfold(text: Seq<u8>, v: DistinfoV) -> DistinfoV { fold_dist(split_nl(text), 0, v) }
pub proof fn lemma_fold_dist_shift(a: Seq<Seq<u8>>, b: Seq<Seq<u8>>, j: int, v: DistinfoV)
    requires 0 <= j <= b.len()
    ensures fold_dist(a + b, a.len() + j, v) == fold_dist(b, j, v)
    decreases b.len() - j
{
    if j < b.len() {
        assert((a + b)[a.len() + j] == b[j]);
        lemma_fold_dist_shift(a, b, j + 1, step_line(v, line_spec(b[j])));
    }
}
/// one complete line in front of a text
pub proof fn lemma_tfold_cons(l: Seq<u8>, rest: Seq<u8>, v: DistinfoV)
    requires !l.contains(10u8)
    ensures tfold(l + seq![10u8] + rest, v) == tfold(rest, step_line(v, line_spec(l)))
{
    lemma_split_nl_cons(l, rest);
    let ps = seq![l] + split_nl(rest);
    assert(ps[0] == l);
    lemma_fold_dist_shift(seq![l], split_nl(rest), 0, step_line(v, line_spec(l)));
}
pub proof fn lemma_tfold_empty(v: DistinfoV) ensures tfold(Seq::<u8>::empty(), v) == v
{
    let e = Seq::<u8>::empty();
    assert(split_nl(e) =~= seq![e]);
    lemma_blank_line();
    assert(fold_dist(seq![e], 0, v) == fold_dist(seq![e], 1, step_line(v, LineV::None)));
}

// ---- one entry
pub open spec fn pick(v: DistinfoV, name: Seq<u8>) -> Seq<EntryV> { if class_of(name) == EntryType::Patchfile { v.patch } else { v.dist } }
pub open spec fn put(v: DistinfoV, name: Seq<u8>, m: Seq<EntryV>) -> DistinfoV {
    if class_of(name) == EntryType::Patchfile { DistinfoV { patch: m, ..v } } else { DistinfoV { dist: m, ..v } }
}
pub open spec fn cls(name: Seq<u8>) -> EntryType { if class_of(name) == EntryType::Patchfile { EntryType::Patchfile } else { EntryType::Distfile } }
pub proof fn lemma_find_name_bounds(m: Seq<EntryV>, k: Seq<u8>)
    ensures -1 <= find_name(m, k) < m.len()
    decreases m.len()
{
    if m.len() > 0 && pkey(m[0].name) != pkey(k) { lemma_find_name_bounds(m.skip(1), k); }
}
pub proof fn lemma_find_name_push(m: Seq<EntryV>, x: EntryV, k: Seq<u8>)
    ensures find_name(m.push(x), k) == (if find_name(m, k) >= 0 { find_name(m, k) } else if pkey(x.name) == pkey(k) { m.len() as int } else { -1 })
    decreases m.len()
{
    if m.len() == 0 {
        assert(m.push(x).skip(1) =~= Seq::<EntryV>::empty());
        assert(m.push(x)[0] == x);
        assert(find_name(Seq::<EntryV>::empty(), k) == -1);
        assert(find_name(m, k) == -1);
    } else {
        assert(m.push(x)[0] == m[0]);
        assert(m.push(x).skip(1) =~= m.skip(1).push(x));
        if pkey(m[0].name) != pkey(k) { lemma_find_name_push(m.skip(1), x, k); lemma_find_name_bounds(m.skip(1), k); lemma_find_name_bounds(m.skip(1).push(x), k); }
    }
}
/// the first n checksum lines of a NEW name create the entry and append the checksums in order
pub proof fn lemma_sum_lines(name: Seq<u8>, sums: Seq<(Digest, Seq<char>)>, n: int, rest: Seq<u8>, v: DistinfoV)
    requires good_name(name), 1 <= n <= sums.len(), forall|i: int| 0 <= i < sums.len() ==> good_hash((#[trigger] sums[i]).1),
        find_name(pick(v, name), name) < 0
    ensures tfold(sum_lines(name, sums, n) + rest, v)
        == tfold(rest, put(v, name, pick(v, name).push(EntryV { name: name, size: None, sums: sums.take(n), ftype: cls(name) })))
    decreases n
{
    let m = pick(v, name);
    let (d, h) = sums[n - 1];
    lemma_sum_text(name, d, h);
    let rest2 = sum_line(name, d, h) + rest;
    assert(sum_lines(name, sums, n) + rest =~= sum_lines(name, sums, n - 1) + rest2);
    assert(rest2 =~= sum_text(name, d, h) + seq![10u8] + rest);
    if n == 1 {
        assert(sum_lines(name, sums, 0) + rest2 =~= rest2);
        lemma_tfold_cons(sum_text(name, d, h), rest, v);
        assert(seq![(d, h)] =~= sums.take(1));
    } else {
        lemma_sum_lines(name, sums, n - 1, rest2, v);
        let e1 = EntryV { name: name, size: None, sums: sums.take(n - 1), ftype: cls(name) };
        let v1 = put(v, name, m.push(e1));
        lemma_tfold_cons(sum_text(name, d, h), rest, v1);
        lemma_find_name_push(m, e1, name);
        assert(pick(v1, name) == m.push(e1));
        assert(sums.take(n - 1).push((d, h)) =~= sums.take(n));
        assert(m.push(e1).update(m.len() as int, EntryV { sums: sums.take(n), ..e1 }) =~= m.push(EntryV { sums: sums.take(n), ..e1 }));
    }
}
pub open spec fn good_entry(e: EntryV, with_size: bool) -> bool {
    good_name(e.name) && e.ftype == cls(e.name) && (forall|i: int| 0 <= i < e.sums.len() ==> good_hash((#[trigger] e.sums[i]).1))
    && (if with_size { (e.sums.len() > 0 || e.size is Some) && (e.size is Some ==> 0 <= e.size->Some_0 <= u64::MAX) } else { e.sums.len() > 0 && e.size is None })
    && (with_size <==> class_of(e.name) != EntryType::Patchfile)
}
/// the block of one entry (its checksum lines, then for a distfile its size line) re-creates exactly that entry at the end of its map
pub proof fn lemma_entry_block(e: EntryV, with_size: bool, rest: Seq<u8>, v: DistinfoV)
    requires good_entry(e, with_size), find_name(pick(v, e.name), e.name) < 0
    ensures tfold(entry_block(e, with_size) + rest, v) == tfold(rest, put(v, e.name, pick(v, e.name).push(e)))
{
    let m = pick(v, e.name);
    let n = e.sums.len() as int;
    let has_size = with_size && e.size is Some;
    let tail = if has_size { size_line(e.name, e.size->Some_0) } else { Seq::<u8>::empty() };
    assert(entry_block(e, with_size) + rest =~= sum_lines(e.name, e.sums, n) + (tail + rest));
    if n >= 1 {
        lemma_sum_lines(e.name, e.sums, n, tail + rest, v);
        assert(e.sums.take(n) =~= e.sums);
        let e1 = EntryV { name: e.name, size: None, sums: e.sums, ftype: cls(e.name) };
        let v1 = put(v, e.name, m.push(e1));
        if has_size {
            let sz = e.size->Some_0;
            lemma_size_text(e.name, sz as u64);
            assert(tail + rest =~= size_text(e.name, sz) + seq![10u8] + rest);
            lemma_tfold_cons(size_text(e.name, sz), rest, v1);
            lemma_find_name_push(m, e1, e.name);
            assert(pick(v1, e.name) == m.push(e1));
            assert(m.push(e1).update(m.len() as int, EntryV { size: Some(sz), ..e1 }) =~= m.push(e));
        } else {
            assert(tail + rest =~= rest);
            assert(e1 == e);
        }
    } else {
        assert(sum_lines(e.name, e.sums, 0) + (tail + rest) =~= tail + rest);
        let sz = e.size->Some_0;
        lemma_size_text(e.name, sz as u64);
        assert(tail + rest =~= size_text(e.name, sz) + seq![10u8] + rest);
        lemma_tfold_cons(size_text(e.name, sz), rest, v);
        assert(e.sums =~= Seq::<(Digest, Seq<char>)>::empty());
        assert(EntryV { name: e.name, size: Some(sz), sums: Seq::<(Digest, Seq<char>)>::empty(), ftype: cls(e.name) } == e);
    }
}

// ---- all entries of one kind
pub open spec fn distinct_names(m: Seq<EntryV>) -> bool { forall|i: int, j: int| 0 <= i < j < m.len() ==> pkey((#[trigger] m[i]).name) != pkey((#[trigger] m[j]).name) }
pub proof fn lemma_find_name_absent(m: Seq<EntryV>, k: Seq<u8>)
    requires forall|i: int| 0 <= i < m.len() ==> pkey((#[trigger] m[i]).name) != pkey(k)
    ensures find_name(m, k) < 0
    decreases m.len()
{
    if m.len() > 0 {
        assert forall|i: int| 0 <= i < m.skip(1).len() implies pkey((#[trigger] m.skip(1)[i]).name) != pkey(k) by { assert(m.skip(1)[i] == m[i + 1]); }
        lemma_find_name_absent(m.skip(1), k);
    }
}
/// the blocks of the first n entries of `es`, parsed on top of a state whose map of that kind holds `base`, append es[0..n) to it
pub proof fn lemma_blocks(es: Seq<EntryV>, n: int, with_size: bool, rest: Seq<u8>, v: DistinfoV, base: Seq<EntryV>)
    requires 0 <= n <= es.len(), forall|i: int| 0 <= i < es.len() ==> good_entry(#[trigger] es[i], with_size), distinct_names(base + es),
        (if with_size { v.dist } else { v.patch }) == base
    ensures tfold(blocks(es, n, with_size) + rest, v)
        == tfold(rest, if with_size { DistinfoV { dist: base + es.take(n), ..v } } else { DistinfoV { patch: base + es.take(n), ..v } })
    decreases n
{
    if n == 0 {
        assert(blocks(es, 0, with_size) + rest =~= rest);
        assert(base + es.take(0) =~= base);
    } else {
        let e = es[n - 1];
        let rest2 = entry_block(e, with_size) + rest;
        assert(blocks(es, n, with_size) + rest =~= blocks(es, n - 1, with_size) + rest2);
        lemma_blocks(es, n - 1, with_size, rest2, v, base);
        let m1 = base + es.take(n - 1);
        let v1 = if with_size { DistinfoV { dist: m1, ..v } } else { DistinfoV { patch: m1, ..v } };
        assert(good_entry(e, with_size));
        assert(pick(v1, e.name) == m1);
        assert forall|i: int| 0 <= i < m1.len() implies pkey((#[trigger] m1[i]).name) != pkey(e.name) by {
            let all = base + es;
            assert(m1[i] == all[i]);
            assert(all[base.len() + n - 1] == e);
        }
        lemma_find_name_absent(m1, e.name);
        lemma_entry_block(e, with_size, rest, v1);
        assert(m1.push(e) =~= base + es.take(n));
    }
}
/// a distinfo value that the API can hold and that prints in canonical layout
pub open spec fn canonical_dv(v: DistinfoV) -> bool {
    (match v.rcsid { Some(s) => good_rcsid(s), None => true })
    && (forall|i: int| 0 <= i < v.dist.len() ==> good_entry(#[trigger] v.dist[i], true)) && distinct_names(v.dist)
    && (forall|i: int| 0 <= i < v.patch.len() ==> good_entry(#[trigger] v.patch[i], false)) && distinct_names(v.patch)
}
/// C10: writing a canonical Distinfo and parsing the result yields the same RCS Id, the same files in the same order, each with the same
/// checksums in order and the same size
pub proof fn theorem_parse_print(v: DistinfoV)
    requires canonical_dv(v)
    ensures parse_distinfo(print_distinfo(v)) == v
{
    let r = match v.rcsid { Some(s) => s, None => NETBSD_ID() };
    let bd = blocks(v.dist, v.dist.len() as int, true);
    let bp = blocks(v.patch, v.patch.len() as int, false);
    let e = Seq::<u8>::empty();
    let t = print_distinfo(v);
    assert(t =~= r + seq![10u8] + (e + seq![10u8] + (bd + (bp + e))));
    let v0 = dv_empty();
    // first line: the RCS Id (or the placeholder, which is not an Id)
    lemma_placeholder_line();
    if v.rcsid is Some { lemma_rcs_line(r); }
    lemma_tfold_cons(r, e + seq![10u8] + (bd + (bp + e)), v0);
    let v1 = step_line(v0, line_spec(r));
    assert(v1 == DistinfoV { rcsid: v.rcsid, ..v0 });
    // blank line
    lemma_blank_line();
    assert(!e.contains(10u8));
    lemma_tfold_cons(e, bd + (bp + e), v1);
    // distfile blocks, then patch blocks
    assert(Seq::<EntryV>::empty() + v.dist =~= v.dist);
    lemma_blocks(v.dist, v.dist.len() as int, true, bp + e, v1, Seq::<EntryV>::empty());
    let v2 = DistinfoV { dist: Seq::<EntryV>::empty() + v.dist.take(v.dist.len() as int), ..v1 };
    assert(v.dist.take(v.dist.len() as int) =~= v.dist);
    assert(Seq::<EntryV>::empty() + v.patch =~= v.patch);
    lemma_blocks(v.patch, v.patch.len() as int, false, e, v2, Seq::<EntryV>::empty());
    assert(v.patch.take(v.patch.len() as int) =~= v.patch);
    let v3 = DistinfoV { patch: Seq::<EntryV>::empty() + v.patch, ..v2 };
    lemma_tfold_empty(v3);
    assert(v3.dist =~= v.dist);
    assert(v3.patch =~= v.patch);
}
/// ... and conversely parsing a distinfo file in canonical layout (= the printed form of a canonical value) and writing it back
/// reproduces the input byte for byte
pub proof fn theorem_print_parse(v: DistinfoV)
    requires canonical_dv(v)
    ensures print_distinfo(parse_distinfo(print_distinfo(v))) == print_distinfo(v)
{
    theorem_parse_print(v);
}
