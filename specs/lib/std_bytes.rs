// lib/std_bytes.rs -- byte-slice helpers (assumed std contracts, group S-iter) and their spec functions
// a slice never has more than usize::MAX elements
pub axiom fn axiom_slice_len_fits(s: &[u8]) ensures s@.len() <= usize::MAX;

pub open spec fn aws(c: u8) -> bool { c == 32u8 || (9u8 <= c && c <= 13u8) }
pub proof fn lemma_aws_char(c: u8)
    ensures (c < 128 && vstd::std_specs::char::is_white_space(c as char)) == aws(c)
{
}
/// pieces between '\n' separators (always at least one piece)
pub open spec fn split_nl(b: Seq<u8>) -> Seq<Seq<u8>> decreases b.len() {
    let i = first_byte(b, 10u8);
    if i < 0 || i >= b.len() { seq![b] } else { seq![b.take(i)] + split_nl(b.skip(i + 1)) }
}
/// maximal runs of non-whitespace bytes, in order (the non-empty pieces of a split on ASCII whitespace)
pub open spec fn ws_fields(b: Seq<u8>) -> Seq<Seq<u8>> decreases b.len() {
    if b.len() == 0 { Seq::<Seq<u8>>::empty() }
    else if aws(b[0]) { ws_fields(b.skip(1)) }
    else { let n = run_len(b); if n < 1 || n > b.len() { Seq::<Seq<u8>>::empty() } else { seq![b.take(n)] + ws_fields(b.skip(n)) } }
}
/// length of the leading run of non-whitespace bytes
pub open spec fn run_len(b: Seq<u8>) -> int decreases b.len() {
    if b.len() == 0 || aws(b[0]) { 0 } else { 1 + run_len(b.skip(1)) }
}
pub proof fn lemma_run_len(b: Seq<u8>)
    ensures 0 <= run_len(b) <= b.len(), b.len() > 0 && !aws(b[0]) ==> run_len(b) >= 1
    decreases b.len()
{
    if b.len() > 0 && !aws(b[0]) { lemma_run_len(b.skip(1)); }
}
pub open spec fn nonempty_views(v: Seq<&[u8]>, upto: int) -> Seq<Seq<u8>> decreases upto {
    if upto <= 0 || upto > v.len() { Seq::<Seq<u8>>::empty() }
    else if v[upto - 1]@.len() == 0 { nonempty_views(v, upto - 1) }
    else { nonempty_views(v, upto - 1).push(v[upto - 1]@) }
}
// shim D6.split_nl_bytes
#[verifier::external_body]
fn shim_split_nl<'a>(b: &'a [u8]) -> (r: Vec<&'a [u8]>)
    ensures r@.len() == split_nl(b@).len(), forall|i: int| 0 <= i < r@.len() ==> (#[trigger] r@[i])@ == split_nl(b@)[i]
{ b.split(|c| *c == b'\n').collect() }
// shim D6.split_ascii_ws: the non-empty pieces are exactly the whitespace-separated fields
#[verifier::external_body]
fn shim_split_ascii_ws<'a>(b: &'a [u8]) -> (r: Vec<&'a [u8]>)
    ensures nonempty_views(r@, r@.len() as int) == ws_fields(b@)
{ b.split(|c| c.is_ascii() && (*c as char).is_whitespace()).collect() }
// shim D6.slice_starts_with_lit / D6.slice_ne_lit
#[verifier::external_body]
fn shim_slice_starts_with(b: &[u8], p: &[u8]) -> (r: bool)
    ensures r == p@.is_prefix_of(b@)
{ b.starts_with(p) }
#[verifier::external_body]
fn shim_slice_ne(b: &[u8], p: &[u8]) -> (r: bool)
    ensures r == (b@ != p@)
{ b != p }
// shim D6.string_from_utf8_slice
#[verifier::external_body]
fn shim_string_from_utf8_slice(b: &[u8]) -> (r: core::result::Result<String, std::string::FromUtf8Error>)
    ensures r is Ok <==> valid_utf8(b@), r is Ok ==> r->Ok_0@ == decode_utf8(b@)
{ String::from_utf8(b.to_vec()) }
/// decimal text accepted by u64::from_str: optional '+', at least one digit, value within u64
pub open spec fn u64_text_value(cs: Seq<char>) -> Option<int> {
    let ds = if cs.len() > 0 && cs[0] == '+' { cs.skip(1) } else { cs };
    if ds.len() >= 1 && all_digits(ds) && dec_value(ds) <= u64::MAX { Some(dec_value(ds)) } else { None }
}
pub proof fn lemma_int_text_u64(n: u64)
    ensures u64_text_value(int_text(n as int)) == Some(n as int), is_ascii_chars(int_text(n as int))
{
    lemma_dec_text(n as nat);
    let t = int_text(n as int);
    assert(t[0] != '+') by { assert(is_digit(t[0])); }
}

// shim D6.u64_from_str
#[verifier::external_body]
fn shim_parse_u64(s: &str) -> (r: core::result::Result<u64, std::num::ParseIntError>)
    ensures (match u64_text_value(s@) { Some(v) => r is Ok && r->Ok_0 == v, None => r is Err })
{ s.parse::<u64>() }
