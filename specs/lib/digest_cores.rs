// lib/digest_cores.rs -- stand-ins for the RustCrypto hasher types named in src/digest.rs.  Each is opaque; the only
// fact stated is WHICH standard algorithm the type implements (its name says so) -- that the core really computes that
// algorithm is the uninterpreted std_digest (trusted; cross-checked against an independent implementation, bounded, in
// the thorough tier).
pub mod blake2 {
    use vstd::prelude::*;
    #[verifier::external_body]
    pub struct Blake2s256 { _p: () }
    impl super::digest::Digest for Blake2s256 {
        open spec fn algo() -> super::Digest { super::Digest::BLAKE2s }
        uninterp spec fn fed(&self) -> Seq<u8>;
        #[verifier::external_body]
        fn new() -> (r: Self) { unimplemented!() }
        #[verifier::external_body]
        fn update(&mut self, data: &[u8]) { unimplemented!() }
        #[verifier::external_body]
        fn finalize(self) -> (r: Vec<u8>) { unimplemented!() }
    }
}
pub mod md5 {
    use vstd::prelude::*;
    #[verifier::external_body]
    pub struct Md5 { _p: () }
    impl super::digest::Digest for Md5 {
        open spec fn algo() -> super::Digest { super::Digest::MD5 }
        uninterp spec fn fed(&self) -> Seq<u8>;
        #[verifier::external_body]
        fn new() -> (r: Self) { unimplemented!() }
        #[verifier::external_body]
        fn update(&mut self, data: &[u8]) { unimplemented!() }
        #[verifier::external_body]
        fn finalize(self) -> (r: Vec<u8>) { unimplemented!() }
    }
}
pub mod ripemd {
    use vstd::prelude::*;
    #[verifier::external_body]
    pub struct Ripemd160 { _p: () }
    impl super::digest::Digest for Ripemd160 {
        open spec fn algo() -> super::Digest { super::Digest::RMD160 }
        uninterp spec fn fed(&self) -> Seq<u8>;
        #[verifier::external_body]
        fn new() -> (r: Self) { unimplemented!() }
        #[verifier::external_body]
        fn update(&mut self, data: &[u8]) { unimplemented!() }
        #[verifier::external_body]
        fn finalize(self) -> (r: Vec<u8>) { unimplemented!() }
    }
}
pub mod sha1 {
    use vstd::prelude::*;
    #[verifier::external_body]
    pub struct Sha1 { _p: () }
    impl super::digest::Digest for Sha1 {
        open spec fn algo() -> super::Digest { super::Digest::SHA1 }
        uninterp spec fn fed(&self) -> Seq<u8>;
        #[verifier::external_body]
        fn new() -> (r: Self) { unimplemented!() }
        #[verifier::external_body]
        fn update(&mut self, data: &[u8]) { unimplemented!() }
        #[verifier::external_body]
        fn finalize(self) -> (r: Vec<u8>) { unimplemented!() }
    }
}
pub mod sha2 {
    use vstd::prelude::*;
    #[verifier::external_body]
    pub struct Sha256 { _p: () }
    impl super::digest::Digest for Sha256 {
        open spec fn algo() -> super::Digest { super::Digest::SHA256 }
        uninterp spec fn fed(&self) -> Seq<u8>;
        #[verifier::external_body]
        fn new() -> (r: Self) { unimplemented!() }
        #[verifier::external_body]
        fn update(&mut self, data: &[u8]) { unimplemented!() }
        #[verifier::external_body]
        fn finalize(self) -> (r: Vec<u8>) { unimplemented!() }
    }
    #[verifier::external_body]
    pub struct Sha512 { _p: () }
    impl super::digest::Digest for Sha512 {
        open spec fn algo() -> super::Digest { super::Digest::SHA512 }
        uninterp spec fn fed(&self) -> Seq<u8>;
        #[verifier::external_body]
        fn new() -> (r: Self) { unimplemented!() }
        #[verifier::external_body]
        fn update(&mut self, data: &[u8]) { unimplemented!() }
        #[verifier::external_body]
        fn finalize(self) -> (r: Vec<u8>) { unimplemented!() }
    }
}
