// ---------------------------------------------------------------------------
// lib/std_str.rs -- assumed contracts on std string functions (trusted base group S-str,
// S-iter shims) and UTF-8 offset lemmas PROVED from vstd::utf8.
// Included textually inside a `verus!{}` block.
// ---------------------------------------------------------------------------

// vstd gives s.len() only as `spec_bytes().len() as usize`; a str never exceeds isize::MAX bytes
pub axiom fn axiom_str_len_fits(s: &str)
    ensures s.spec_bytes().len() <= isize::MAX;

// postcondition of `&s[a..b]` / `&s[a..]` restated (vstd states it through SliceIndexSpec)
pub axiom fn axiom_slice_range(s: &str, t: &str, a: int, b: int)
    requires 0 <= a <= b <= s.spec_bytes().len()
    ensures t.spec_bytes() == s.spec_bytes().subrange(a, b);

// a str value is determined by its characters (Verus compares string-literal patterns with `==` on str values)
pub axiom fn axiom_str_ext(a: &str, b: &str)
    ensures (a@ == b@) == (a == b);

pub open spec fn is_upper(c: char) -> bool { 'A' <= c && c <= 'Z' }
pub open spec fn is_lower_alpha(c: char) -> bool { 'a' <= c && c <= 'z' }
pub open spec fn is_alpha(c: char) -> bool { is_lower_alpha(c) || is_upper(c) }
pub open spec fn is_digit(c: char) -> bool { '0' <= c && c <= '9' }
pub open spec fn is_alnum(c: char) -> bool { is_alpha(c) || is_digit(c) }
pub open spec fn lower(c: char) -> char { if is_upper(c) { ((c as u8) + 32u8) as char } else { c } }
pub open spec fn lower_seq(cs: Seq<char>) -> Seq<char> { Seq::new(cs.len(), |i: int| lower(cs[i])) }

// S-scalar (validated against real std by loop-free Kani harnesses over all of char, thorough tier)
pub assume_specification [char::is_ascii_alphabetic] (c: &char) -> (r: bool)
    ensures r == is_alpha(*c);
pub assume_specification [char::is_ascii_alphanumeric] (c: &char) -> (r: bool)
    ensures r == is_alnum(*c);
pub assume_specification [char::is_ascii_digit] (c: &char) -> (r: bool)
    ensures r == is_digit(*c);
pub assume_specification [char::to_ascii_lowercase] (c: &char) -> (r: char)
    ensures r == lower(*c);

pub assume_specification [u8::is_ascii] (c: &u8) -> (r: bool)
    ensures r == (*c < 128u8);
pub assume_specification [String::len] (s: &String) -> (r: usize)
    ensures r == encode_utf8(s@).len();
pub assume_specification<T, E>[core::result::Result::<T,E>::unwrap_or](r: core::result::Result<T,E>, default: T) -> (t: T)
    ensures t == (match r { Ok(v) => v, Err(_) => default });
pub assume_specification [str::to_ascii_lowercase] (s: &str) -> (r: String)
    ensures r@ == lower_seq(s@);

#[verifier::external_type_specification]
#[verifier::external_body]
pub struct ExParseIntError(std::num::ParseIntError);

/// number of leading ASCII digits
pub open spec fn dpl(cs: Seq<char>) -> nat decreases cs.len() {
    if cs.len() > 0 && is_digit(cs[0]) { 1 + dpl(cs.skip(1)) } else { 0 }
}
pub open spec fn dec_value(ds: Seq<char>) -> int decreases ds.len() {
    if ds.len() == 0 { 0 } else { dec_value(ds.drop_last()) * 10 + (ds.last() as int - '0' as int) }
}
pub open spec fn all_digits(ds: Seq<char>) -> bool { forall|i: int| 0 <= i < ds.len() ==> is_digit(#[trigger] ds[i]) }

// shim D6.take_digits: X.chars().take_while(char::is_ascii_digit).collect::<String>()
#[verifier::external_body]
fn shim_take_ascii_digits(slice: &str) -> (r: String)
    ensures r@ == slice@.take(dpl(slice@) as int)
{ slice.chars().take_while(char::is_ascii_digit).collect() }

/// value pushed for a digit run: its decimal value, saturating at i64::MAX
pub open spec fn run_value(ds: Seq<char>) -> int { if dec_value(ds) <= i64::MAX { dec_value(ds) } else { i64::MAX as int } }
/// value of the digits after "nb": decimal value; 0 when there are none or they overflow an i64
pub open spec fn nb_value(ds: Seq<char>) -> int { if ds.len() >= 1 && dec_value(ds) <= i64::MAX { dec_value(ds) } else { 0 } }

// shim D6.parse_i64: X.parse::<i64>() -- specified for unsigned ASCII digit strings (Ok(value) iff the
// value fits an i64, Err on overflow) and for the empty string (Err); signs and junk are left unspecified.
#[verifier::external_body]
fn shim_parse_i64(numstr: &str) -> (r: core::result::Result<i64, std::num::ParseIntError>)
    ensures (numstr@.len() >= 1 && all_digits(numstr@)) ==> (match r {
                Ok(v) => dec_value(numstr@) <= i64::MAX && v == dec_value(numstr@),
                Err(_) => dec_value(numstr@) > i64::MAX }),
            numstr@.len() == 0 ==> r is Err,
{ numstr.parse::<i64>() }

// shim D6.starts_with_lit: X.starts_with("lit")
#[verifier::external_body]
fn shim_starts_with_str(s: &str, p: &str) -> (r: bool)
    ensures r == p@.is_prefix_of(s@)
{ s.starts_with(p) }

// shim D6.contains_char: X.contains('c')
#[verifier::external_body]
fn shim_contains_char(s: &str, c: char) -> (r: bool)
    ensures r == s@.contains(c)
{ s.contains(c) }

// ---------------- utf8 offset lemmas (proved from vstd::utf8) ----------------
/// byte offset of char index k
pub open spec fn boff(cs: Seq<char>, k: int) -> int { encode_utf8(cs.take(k)).len() as int }

pub proof fn lemma_encode_empty() ensures encode_utf8(Seq::<char>::empty()).len() == 0 {
    encode_utf8_concat(Seq::<char>::empty(), Seq::<char>::empty());
    assert(Seq::<char>::empty() + Seq::<char>::empty() =~= Seq::<char>::empty());
}
pub proof fn lemma_boff_zero(cs: Seq<char>) ensures boff(cs, 0) == 0 {
    assert(cs.take(0) =~= Seq::<char>::empty()); lemma_encode_empty();
}
pub proof fn lemma_boff_full(cs: Seq<char>) ensures boff(cs, cs.len() as int) == encode_utf8(cs).len() {
    assert(cs.take(cs.len() as int) =~= cs);
}
pub proof fn lemma_boundary(cs: Seq<char>, k: int)
    requires 0 <= k <= cs.len()
    ensures is_char_boundary(encode_utf8(cs), boff(cs, k)),
            encode_utf8(cs) == encode_utf8(cs.take(k)) + encode_utf8(cs.skip(k)),
            0 <= boff(cs, k) <= encode_utf8(cs).len(),
{
    let a = cs.take(k); let b = cs.skip(k);
    assert(cs =~= a + b);
    encode_utf8_concat(a, b);
    let bytes = encode_utf8(cs);
    encode_utf8_valid_utf8(cs);
    encode_utf8_valid_utf8(b);
    let i = boff(cs, k);
    if k == cs.len() {
        assert(b =~= Seq::<char>::empty());
        lemma_encode_empty();
        is_char_boundary_start_end_of_seq(bytes);
    } else {
        encode_utf8_first_scalar(b);
        is_char_boundary_start_end_of_seq(encode_utf8(b));
        is_char_boundary_iff_is_leading_byte(encode_utf8(b), 0);
        is_char_boundary_iff_is_leading_byte(bytes, i);
        assert(bytes[i] == encode_utf8(b)[0]);
    }
}
pub proof fn lemma_boff_end(cs: Seq<char>, k: int)
    requires 0 <= k <= cs.len(), boff(cs, k) == encode_utf8(cs).len()
    ensures k == cs.len()
{
    if k < cs.len() { lemma_encode_utf8_len_strictly_monotonic(cs, k, cs.len() as int); assert(cs.take(cs.len() as int) =~= cs); }
}
pub proof fn lemma_boff_not_end(cs: Seq<char>, k: int)
    requires 0 <= k <= cs.len(), boff(cs, k) != encode_utf8(cs).len()
    ensures k < cs.len()
{
    if k == cs.len() { assert(cs.take(k) =~= cs); }
}
pub proof fn lemma_boff_mono(cs: Seq<char>, i: int, j: int)
    requires 0 <= i <= j <= cs.len()
    ensures boff(cs, i) <= boff(cs, j), i < j ==> boff(cs, i) < boff(cs, j)
{
    if i < j { lemma_encode_utf8_len_strictly_monotonic(cs, i, j); }
}
pub proof fn lemma_ascii_step(cs: Seq<char>, k: int, n: int)
    requires 0 <= k, 0 <= n, k + n <= cs.len(), forall|i: int| k <= i < k + n ==> (cs[i] as u32) < 128
    ensures boff(cs, k + n) == boff(cs, k) + n
{
    let a = cs.take(k); let m = cs.subrange(k, k + n);
    assert(cs.take(k + n) =~= a + m);
    encode_utf8_concat(a, m);
    assert(is_ascii_chars(m));
    is_ascii_chars_encode_utf8(m);
}
pub proof fn lemma_char_step(cs: Seq<char>, k: int)
    requires 0 <= k < cs.len()
    ensures boff(cs, k + 1) == boff(cs, k) + encode_scalar(cs[k] as u32).len()
{
    let a = cs.take(k); let m = seq![cs[k]];
    assert(cs.take(k + 1) =~= a + m);
    encode_utf8_concat(a, m);
    encode_utf8_first_scalar(m);
    assert(m.skip(1) =~= Seq::<char>::empty());
    lemma_encode_empty();
}
/// the sub-slice starting at the byte offset of char k views as the char suffix from k
pub proof fn lemma_slice_view(s: &str, t: &str, k: int)
    requires 0 <= k <= s@.len(), t.spec_bytes() == s.spec_bytes().subrange(boff(s@, k), s.spec_bytes().len() as int)
    ensures t@ == s@.skip(k)
{
    lemma_boundary(s@, k);
    assert(s.spec_bytes() == encode_utf8(s@));
    assert(t.spec_bytes() == encode_utf8(t@));
    assert(t.spec_bytes() =~= encode_utf8(s@.skip(k)));
    encode_utf8_decode_utf8(t@);
    encode_utf8_decode_utf8(s@.skip(k));
}
/// the sub-slice between the byte offsets of chars i and j views as s@.subrange(i, j)
pub proof fn lemma_slice_view_range(s: &str, t: &str, i: int, j: int)
    requires 0 <= i <= j <= s@.len(), t.spec_bytes() == s.spec_bytes().subrange(boff(s@, i), boff(s@, j))
    ensures t@ == s@.subrange(i, j)
{
    let cs = s@;
    let a = cs.take(i); let m = cs.subrange(i, j);
    assert(cs.take(j) =~= a + m);
    encode_utf8_concat(a, m);
    lemma_boundary(cs, j);
    assert(s.spec_bytes() == encode_utf8(cs));
    assert(t.spec_bytes() == encode_utf8(t@));
    assert(s.spec_bytes().subrange(boff(cs, i), boff(cs, j)) =~= encode_utf8(m));
    encode_utf8_decode_utf8(t@);
    encode_utf8_decode_utf8(m);
}
/// fixed-width ASCII token of width w at char k: advance facts
pub proof fn lemma_fixed_step(s: Seq<char>, k: int, w: int, lit: Seq<char>)
    requires 0 <= k <= s.len(), lit.len() == w, w >= 1, lit.is_prefix_of(s.skip(k)), forall|i: int| 0 <= i < w ==> (lit[i] as u32) < 128
    ensures k + w <= s.len(), boff(s, k + w) == boff(s, k) + w, s.skip(k).skip(w) == s.skip(k + w),
        0 <= boff(s, k + w) <= encode_utf8(s).len(),
{
    let cs = s.skip(k);
    assert(cs.len() >= w);
    assert forall|i: int| k <= i < k + w implies (s[i] as u32) < 128 by { assert(s[i] == cs[i - k]); assert(cs[i - k] == lit[i - k]); }
    lemma_ascii_step(s, k, w);
    lemma_boundary(s, k + w);
    assert(cs.skip(w) =~= s.skip(k + w));
}
pub proof fn lemma_dpl(cs: Seq<char>)
    ensures dpl(cs) <= cs.len(), all_digits(cs.take(dpl(cs) as int)),
        forall|i: int| 0 <= i < dpl(cs) ==> is_digit(#[trigger] cs[i]),
        dpl(cs) < cs.len() ==> !is_digit(cs[dpl(cs) as int]),
    decreases cs.len()
{
    if cs.len() > 0 && is_digit(cs[0]) {
        lemma_dpl(cs.skip(1));
        let n = dpl(cs) as int;
        assert forall|i: int| 0 <= i < n implies is_digit(#[trigger] cs[i]) by {
            if i > 0 { assert(cs[i] == cs.skip(1)[i - 1]); }
        }
        if n < cs.len() { assert(cs[n] == cs.skip(1)[n - 1]); }
    }
}
pub proof fn lemma_dec_value_nonneg(ds: Seq<char>)
    requires all_digits(ds)
    ensures 0 <= dec_value(ds)
    decreases ds.len()
{
    if ds.len() > 0 { lemma_dec_value_nonneg(ds.drop_last()); }
}
pub open spec fn pow10(n: nat) -> int decreases n { if n == 0 { 1 } else { 10 * pow10((n - 1) as nat) } }
pub proof fn lemma_dec_value_bound(ds: Seq<char>)
    requires all_digits(ds), ds.len() <= 18
    ensures 0 <= dec_value(ds) < pow10(ds.len()), dec_value(ds) < 1000000000000000000
    decreases ds.len()
{
    if ds.len() > 0 { lemma_dec_value_bound(ds.drop_last()); }
    lemma_pow10_mono(ds.len(), 18);
    assert(pow10(18) == 1000000000000000000) by (compute);
}
pub proof fn lemma_pow10_mono(a: nat, b: nat)
    requires a <= b ensures 0 < pow10(a) <= pow10(b) decreases b
{
    if a < b { lemma_pow10_mono(a, (b - 1) as nat); }
    else if a > 0 { lemma_pow10_mono((a - 1) as nat, (a - 1) as nat); }
}

// ---------------- searching ----------------
/// index of the last occurrence of c, or -1
pub open spec fn last_index_of(cs: Seq<char>, c: char) -> int decreases cs.len() {
    if cs.len() == 0 { -1 } else if cs.last() == c { cs.len() - 1 } else { last_index_of(cs.drop_last(), c) }
}
pub proof fn lemma_last_index_of(cs: Seq<char>, c: char)
    ensures -1 <= last_index_of(cs, c) < cs.len(),
        last_index_of(cs, c) >= 0 ==> cs[last_index_of(cs, c)] == c,
        forall|i: int| last_index_of(cs, c) < i < cs.len() ==> cs[i] != c,
        (last_index_of(cs, c) < 0) == !cs.contains(c),
    decreases cs.len()
{
    if cs.len() > 0 && cs.last() != c {
        lemma_last_index_of(cs.drop_last(), c);
        let d = cs.drop_last();
        assert forall|i: int| last_index_of(cs, c) < i < cs.len() implies cs[i] != c by { if i < d.len() { assert(d[i] == cs[i]); } }
        if last_index_of(cs, c) < 0 {
            if cs.contains(c) { let i = choose|i: int| 0 <= i < cs.len() && cs[i] == c; assert(d[i] == c); assert(d.contains(c)); }
        } else { assert(d[last_index_of(d, c)] == c); assert(cs[last_index_of(d, c)] == c); }
    } else if cs.len() > 0 { assert(cs[cs.len() - 1] == c); }
}
/// largest j <= upto with lit a prefix of cs.skip(j), or -1
pub open spec fn last_sub_upto(cs: Seq<char>, lit: Seq<char>, upto: int) -> int decreases upto + 1 {
    if upto < 0 { -1 } else if upto <= cs.len() && lit.is_prefix_of(cs.skip(upto)) { upto } else { last_sub_upto(cs, lit, upto - 1) }
}
pub open spec fn last_sub(cs: Seq<char>, lit: Seq<char>) -> int { last_sub_upto(cs, lit, cs.len() - lit.len()) }

pub open spec fn count_c(cs: Seq<char>, c: char) -> nat decreases cs.len() {
    if cs.len() == 0 { 0 } else { (if cs.last() == c { 1nat } else { 0nat }) + count_c(cs.drop_last(), c) }
}
pub open spec fn first_index_of(cs: Seq<char>, c: char) -> int decreases cs.len() {
    if cs.len() == 0 { -1 } else if cs[0] == c { 0 } else { let r = first_index_of(cs.skip(1), c); if r < 0 { -1 } else { r + 1 } }
}
pub proof fn lemma_first_index_of(cs: Seq<char>, c: char)
    ensures -1 <= first_index_of(cs, c) < cs.len(),
        first_index_of(cs, c) >= 0 ==> cs[first_index_of(cs, c)] == c,
        forall|i: int| 0 <= i < cs.len() && (first_index_of(cs, c) < 0 || i < first_index_of(cs, c)) ==> cs[i] != c,
    decreases cs.len()
{
    if cs.len() > 0 && cs[0] != c {
        lemma_first_index_of(cs.skip(1), c);
        let t = cs.skip(1);
        assert forall|i: int| 0 <= i < cs.len() && (first_index_of(cs, c) < 0 || i < first_index_of(cs, c)) implies cs[i] != c by {
            if i > 0 { assert(cs[i] == t[i - 1]); }
        }
    }
}

/// str::split(',') : always at least one piece
pub open spec fn split_commas(cs: Seq<char>) -> Seq<Seq<char>> decreases cs.len() {
    let i = first_index_of(cs, ',');
    if i < 0 || i >= cs.len() { seq![cs] } else { seq![cs.take(i)] + split_commas(cs.skip(i + 1)) }
}


// shim D6.rsplit_once_char: X.rsplit_once('c')
#[verifier::external_body]
fn shim_rsplit_once_char<'a>(s: &'a str, c: char) -> (r: Option<(&'a str, &'a str)>)
    ensures (match r {
        Some((a, b)) => last_index_of(s@, c) >= 0 && a@ == s@.take(last_index_of(s@, c)) && b@ == s@.skip(last_index_of(s@, c) + 1),
        None => last_index_of(s@, c) < 0,
    })
{ s.rsplit_once(c) }

// shim D6.rsplit_once_lit: X.rsplit_once("lit")
#[verifier::external_body]
fn shim_rsplit_once_str<'a>(s: &'a str, p: &str) -> (r: Option<(&'a str, &'a str)>)
    ensures (match r {
        Some((a, b)) => last_sub(s@, p@) >= 0 && a@ == s@.take(last_sub(s@, p@)) && b@ == s@.skip(last_sub(s@, p@) + p@.len()),
        None => last_sub(s@, p@) < 0,
    })
{ s.rsplit_once(p) }

// shim D6.string_from: String::from(&str)
#[verifier::external_body]
fn shim_string_from(s: &str) -> (r: String)
    ensures r@ == s@
{ String::from(s) }

// shim D6.ne_self_field_string: a != self.field  (a: &str, field: String)
#[verifier::external_body]
fn shim_str_ne_string(a: &str, b: &String) -> (r: bool)
    ensures r == (a@ != b@)
{ a != b }

// shim D6.rsplitn2_dash: X.rsplitn(2, '-').collect::<Vec<&str>>()
#[verifier::external_body]
fn shim_rsplitn2_dash<'a>(s: &'a str) -> (r: Vec<&'a str>)
    ensures last_index_of(s@, '-') >= 0 ==> (r@.len() == 2 && r@[0]@ == s@.skip(last_index_of(s@, '-') + 1) && r@[1]@ == s@.take(last_index_of(s@, '-'))),
            last_index_of(s@, '-') < 0 ==> (r@.len() == 1 && r@[0]@ == s@),
{ s.rsplitn(2, '-').collect() }

// shim D6.str_get_range: X.get(a..b)
#[verifier::external_body]
fn shim_str_get<'a>(s: &'a str, a: usize, b: usize) -> (r: Option<&'a str>)
    ensures (a <= b && b <= s.spec_bytes().len() && is_char_boundary(s.spec_bytes(), a as int) && is_char_boundary(s.spec_bytes(), b as int))
                ==> (r is Some && r->Some_0.spec_bytes() == s.spec_bytes().subrange(a as int, b as int)),
            !(a <= b && b <= s.spec_bytes().len() && is_char_boundary(s.spec_bytes(), a as int) && is_char_boundary(s.spec_bytes(), b as int))
                ==> r is None,
{ s.get(a..b) }

/// char indices k >= from with cs[k] in {'>','<'}, increasing
pub open spec fn is_op_char(c: char) -> bool { c == '>' || c == '<' }
pub open spec fn ops_from(cs: Seq<char>, from: int) -> Seq<int> decreases cs.len() - from {
    if from >= cs.len() || from < 0 { seq![] }
    else if is_op_char(cs[from]) { seq![from] + ops_from(cs, from + 1) }
    else { ops_from(cs, from + 1) }
}
// shim D6.match_indices_gt_lt
#[verifier::external_body]
fn shim_match_indices_gt_lt<'a>(s: &'a str) -> (r: Vec<(usize, &'a str)>)
    ensures r@.len() == ops_from(s@, 0).len(),
        forall|j: int| 0 <= j < r@.len() ==> (#[trigger] r@[j]).0 == boff(s@, ops_from(s@, 0)[j]) && r@[j].1@ == seq![s@[ops_from(s@, 0)[j]]],
{ s.match_indices(&['>', '<']).collect() }

// ---------------- bytes <-> chars for ASCII (proved) ----------------
pub proof fn lemma_encode_scalar_ascii(c: char)
    ensures (c as u32) < 128 ==> encode_scalar(c as u32) =~= seq![c as u8],
            (c as u32) >= 128 ==> encode_scalar(c as u32).len() >= 2 && encode_scalar(c as u32)[0] >= 128,
{
    let v = c as u32;
    if v < 128 {
        assert(has_width_1_encoding(v));
        assert(v & 0x7F == v) by (bit_vector) requires v < 128;
    } else if has_width_2_encoding(v) {
        assert((0xC0u8 | ((v >> 6) & 0x1F) as u8) >= 128) by (bit_vector);
    } else if has_width_3_encoding(v) {
        assert((0xE0u8 | ((v >> 12) & 0x0F) as u8) >= 128) by (bit_vector);
    } else {
        assert((0xF0u8 | ((v >> 18) & 0x07) as u8) >= 128) by (bit_vector);
    }
}
/// the byte at the offset of char k is the leading byte of cs[k]; ASCII iff < 128
pub proof fn lemma_byte_at(cs: Seq<char>, k: int)
    requires 0 <= k < cs.len()
    ensures boff(cs, k) < encode_utf8(cs).len(),
        ((cs[k] as u32) < 128) == (encode_utf8(cs)[boff(cs, k)] < 128),
        (cs[k] as u32) < 128 ==> encode_utf8(cs)[boff(cs, k)] == cs[k] as u8 && boff(cs, k + 1) == boff(cs, k) + 1,
        (cs[k] as u32) >= 128 ==> boff(cs, k + 1) >= boff(cs, k) + 2,
{
    lemma_boundary(cs, k);
    let b = cs.skip(k);
    encode_utf8_first_scalar(b);
    lemma_encode_scalar_ascii(cs[k]);
    lemma_char_step(cs, k);
    assert(b[0] == cs[k]);
    assert(encode_utf8(cs)[boff(cs, k)] == encode_utf8(b)[0]);
}

// shim D6.substr_to_string: X[a..b].to_string()   (panics exactly when the slice would: kept as `requires`)
#[verifier::external_body]
fn shim_substr_to_string(s: &str, a: usize, b: usize) -> (r: String)
    requires a <= b <= s.spec_bytes().len(), is_char_boundary(s.spec_bytes(), a as int), is_char_boundary(s.spec_bytes(), b as int)
    ensures encode_utf8(r@) == s.spec_bytes().subrange(a as int, b as int)
{ s[a..b].to_string() }

pub proof fn lemma_substr_view(s: &str, r: Seq<char>, i: int, j: int)
    requires 0 <= i <= j <= s@.len(), encode_utf8(r) == s.spec_bytes().subrange(boff(s@, i), boff(s@, j))
    ensures r == s@.subrange(i, j)
{
    let cs = s@;
    let a = cs.take(i); let m = cs.subrange(i, j);
    assert(cs.take(j) =~= a + m);
    encode_utf8_concat(a, m);
    lemma_boundary(cs, j);
    assert(s.spec_bytes() == encode_utf8(cs));
    assert(s.spec_bytes().subrange(boff(cs, i), boff(cs, j)) =~= encode_utf8(m));
    encode_utf8_decode_utf8(r);
    encode_utf8_decode_utf8(m);
}

// shim D6.rfind_char / D6.find_char
#[verifier::external_body]
fn shim_rfind_char(s: &str, c: char) -> (r: Option<usize>)
    ensures (match r { Some(i) => last_index_of(s@, c) >= 0 && i == boff(s@, last_index_of(s@, c)), None => last_index_of(s@, c) < 0 })
{ s.rfind(c) }
#[verifier::external_body]
fn shim_find_char(s: &str, c: char) -> (r: Option<usize>)
    ensures (match r { Some(i) => first_index_of(s@, c) >= 0 && i == boff(s@, first_index_of(s@, c)), None => first_index_of(s@, c) < 0 })
{ s.find(c) }
// shim D6.split_comma
#[verifier::external_body]
fn shim_split_comma<'a>(s: &'a str) -> (r: Vec<&'a str>)
    ensures r@.len() == split_commas(s@).len(), forall|i: int| 0 <= i < r@.len() ==> (#[trigger] r@[i])@ == split_commas(s@)[i]
{ s.split(',').collect() }
/// str::split_terminator(','): as split(','), except that an empty trailing piece is skipped
pub open spec fn split_term_commas(cs: Seq<char>) -> Seq<Seq<char>> {
    let p = split_commas(cs);
    if p.len() > 0 && p.last().len() == 0 { p.drop_last() } else { p }
}
// shim D6.split_terminator_comma
#[verifier::external_body]
fn shim_split_terminator_comma<'a>(s: &'a str) -> (r: Vec<&'a str>)
    ensures r@.len() == split_term_commas(s@).len(), forall|i: int| 0 <= i < r@.len() ==> (#[trigger] r@[i])@ == split_term_commas(s@)[i]
{ s.split_terminator(',').collect() }
// shim D8.format3
#[verifier::external_body]
fn shim_concat3(a: &str, b: &str, c: &str) -> (r: String)
    ensures r@ == a@ + b@ + c@
{ format!("{}{}{}", a, b, c) }
/// byte-wise lexicographic order
pub open spec fn lex_lt(a: Seq<u8>, b: Seq<u8>) -> bool decreases a.len() {
    if b.len() == 0 { false } else if a.len() == 0 { true }
    else if a[0] != b[0] { a[0] < b[0] } else { lex_lt(a.skip(1), b.skip(1)) }
}
// shim D6.str_lt
#[verifier::external_body]
fn shim_str_lt(a: &str, b: &str) -> (r: bool)
    ensures r == lex_lt(a.spec_bytes(), b.spec_bytes())
{ a < b }

// shim D6.eq_self_field_str: self.field == b  (field: String, b: &str)
#[verifier::external_body]
fn shim_string_eq_str(a: &String, b: &str) -> (r: bool)
    ensures r == (a@ == b@)
{ a == b }

// ---------------- byte slices ----------------
/// index of the first occurrence of byte x, or -1
pub open spec fn first_byte(b: Seq<u8>, x: u8) -> int decreases b.len() {
    if b.len() == 0 { -1 } else if b[0] == x { 0 } else { let r = first_byte(b.skip(1), x); if r < 0 { -1 } else { r + 1 } }
}
pub proof fn lemma_first_byte(b: Seq<u8>, x: u8)
    ensures -1 <= first_byte(b, x) < b.len(),
        first_byte(b, x) >= 0 ==> b[first_byte(b, x)] == x,
        forall|i: int| 0 <= i < b.len() && (first_byte(b, x) < 0 || i < first_byte(b, x)) ==> b[i] != x,
    decreases b.len()
{
    if b.len() > 0 && b[0] != x {
        lemma_first_byte(b.skip(1), x);
        let t = b.skip(1);
        assert forall|i: int| 0 <= i < b.len() && (first_byte(b, x) < 0 || i < first_byte(b, x)) implies b[i] != x by {
            if i > 0 { assert(b[i] == t[i - 1]); }
        }
    }
}
// shim D6.position_byte: S.iter().position(|&c| c == BYTE)
#[verifier::external_body]
fn shim_position_byte(s: &[u8], x: u8) -> (r: Option<usize>)
    ensures (match r { Some(i) => first_byte(s@, x) == i, None => first_byte(s@, x) < 0 })
{ s.iter().position(|&c| c == x) }
// shim D6.lossy_owned: String::from_utf8_lossy(bytes).into_owned().  Assumed: ASCII text decodes to itself and
// only to itself (invalid sequences become U+FFFD), and the first char is '@' exactly when the first byte is 0x40.
#[verifier::external_body]
fn shim_lossy_owned(b: &[u8]) -> (r: String)
    ensures (r@.len() > 0 && r@[0] == '@') == (b@.len() > 0 && b@[0] == 0x40u8),
        forall|l: Seq<char>| is_ascii_chars(l) ==> ((r@ == l) == (b@ == #[trigger] encode_utf8(l))),
{ String::from_utf8_lossy(b).into_owned() }
// shim D6.string_starts_with_char
#[verifier::external_body]
fn shim_string_starts_with_char(s: &String, c: char) -> (r: bool)
    ensures r == (s@.len() > 0 && s@[0] == c)
{ s.starts_with(c) }

// ---------------- lines / key=value ----------------
pub open spec fn strip_cr(l: Seq<char>) -> Seq<char> { if l.len() > 0 && l.last() == '\r' { l.drop_last() } else { l } }
/// str::lines(): split at '\n'; a '\r' directly before a '\n' is removed; no empty line after a final '\n'
pub open spec fn lines_spec(cs: Seq<char>) -> Seq<Seq<char>> decreases cs.len() {
    if cs.len() == 0 { seq![] } else {
        let i = first_index_of(cs, '\n');
        if i < 0 || i >= cs.len() { seq![cs] } else { seq![strip_cr(cs.take(i))] + lines_spec(cs.skip(i + 1)) }
    }
}
// shim D6.str_lines
#[verifier::external_body]
fn shim_lines<'a>(s: &'a str) -> (r: Vec<&'a str>)
    ensures r@.len() == lines_spec(s@).len(), forall|i: int| 0 <= i < r@.len() ==> (#[trigger] r@[i])@ == lines_spec(s@)[i]
{ s.lines().collect() }
// shim D6.splitn2_eq
#[verifier::external_body]
fn shim_splitn2_eq<'a>(s: &'a str) -> (r: Vec<&'a str>)
    ensures first_index_of(s@, '=') >= 0 ==> (r@.len() == 2 && r@[0]@ == s@.take(first_index_of(s@, '=')) && r@[1]@ == s@.skip(first_index_of(s@, '=') + 1)),
            first_index_of(s@, '=') < 0 ==> (r@.len() == 1 && r@[0]@ == s@),
{ s.splitn(2, '=').collect() }
/// text accepted by str::parse::<i64>: optional sign, at least one ASCII digit, value within i64
pub open spec fn i64_text_value(cs: Seq<char>) -> Option<int> {
    let neg = cs.len() > 0 && cs[0] == '-';
    let ds = if cs.len() > 0 && (cs[0] == '-' || cs[0] == '+') { cs.skip(1) } else { cs };
    if ds.len() >= 1 && all_digits(ds) {
        let v = if neg { -dec_value(ds) } else { dec_value(ds) };
        if i64::MIN <= v <= i64::MAX { Some(v) } else { None }
    } else { None }
}
// ---- decimal text of integers as `{}` prints it, PROVED to re-parse to the value (the shims that print integers state this text)
/// the decimal digit character of d (< 10)
pub open spec fn digit_char(d: nat) -> char { ((48u8 + (d % 10) as u8) as u8) as char }
/// decimal text of a natural number: no leading zeros, "0" for zero
pub open spec fn dec_text(n: nat) -> Seq<char> decreases n {
    if n < 10 { seq![digit_char(n)] } else { dec_text(n / 10).push(digit_char(n % 10)) }
}
pub proof fn lemma_digit_char(d: nat)
    requires d < 10
    ensures is_digit(digit_char(d)), digit_char(d) as int - '0' as int == d, digit_char(d) != '\n', digit_char(d) != '\r', (digit_char(d) as u32) < 128
{
}
pub proof fn lemma_dec_text(n: nat)
    ensures dec_text(n).len() >= 1, all_digits(dec_text(n)), dec_value(dec_text(n)) == n,
        !dec_text(n).contains('\n'), !dec_text(n).contains('\r'), !dec_text(n).contains('-'), !dec_text(n).contains('+'),
        forall|i: int| 0 <= i < dec_text(n).len() ==> (#[trigger] dec_text(n)[i] as u32) < 128,
    decreases n
{
    let t = dec_text(n);
    if n < 10 {
        lemma_digit_char(n);
        assert(t.drop_last() =~= Seq::<char>::empty());
        assert(dec_value(t) == dec_value(t.drop_last()) * 10 + (t.last() as int - '0' as int));
        assert(dec_value(Seq::<char>::empty()) == 0);
    } else {
        lemma_dec_text(n / 10);
        lemma_digit_char(n % 10);
        let p = dec_text(n / 10);
        assert(t.drop_last() =~= p);
        assert(t.last() == digit_char(n % 10));
        assert(dec_value(t) == dec_value(p) * 10 + (t.last() as int - '0' as int));
        assert forall|i: int| 0 <= i < t.len() implies is_digit(#[trigger] t[i]) by { if i < p.len() { assert(t[i] == p[i]); } }
        assert forall|i: int| 0 <= i < t.len() implies (#[trigger] t[i] as u32) < 128 by { if i < p.len() { assert(t[i] == p[i]); } }
    }
    assert forall|c: char| !is_digit(c) implies !t.contains(c) by {
        if t.contains(c) { let i = choose|i: int| 0 <= i < t.len() && t[i] == c; assert(is_digit(t[i])); }
    }
}
/// decimal text of an integer as `{}` prints it: '-' and the digits of the magnitude for negatives
pub open spec fn int_text(i: int) -> Seq<char> { if i < 0 { seq!['-'] + dec_text((-i) as nat) } else { dec_text(i as nat) } }
pub proof fn lemma_int_text_i64(i: i64)
    ensures i64_text_value(int_text(i as int)) == Some(i as int), !int_text(i as int).contains('\n'), !int_text(i as int).contains('\r')
{
    let t = int_text(i as int);
    if i < 0 {
        let d = dec_text((-(i as int)) as nat);
        lemma_dec_text((-(i as int)) as nat);
        assert(t[0] == '-');
        assert(t.skip(1) =~= d);
        assert forall|c: char| c != '-' && !d.contains(c) implies !t.contains(c) by {
            if t.contains(c) { let k = choose|k: int| 0 <= k < t.len() && t[k] == c; if k > 0 { assert(d[k - 1] == c); assert(d.contains(c)); } }
        }
    } else {
        lemma_dec_text(i as nat);
        assert(t[0] != '-' && t[0] != '+') by { assert(is_digit(t[0])); }
    }
}

// shim D6.parse_i64_index
#[verifier::external_body]
fn shim_parse_i64_full(s: &str) -> (r: core::result::Result<i64, std::num::ParseIntError>)
    ensures (match i64_text_value(s@) { Some(v) => r is Ok && r->Ok_0 == v, None => r is Err })
{ s.parse::<i64>() }

/// the statement's decomposition: split at the last '-'
pub open spec fn base_of(name: Seq<char>) -> Seq<char> {
    if last_index_of(name, '-') >= 0 { name.take(last_index_of(name, '-')) } else { name }
}
pub open spec fn version_of(name: Seq<char>) -> Seq<char> {
    if last_index_of(name, '-') >= 0 { name.skip(last_index_of(name, '-') + 1) } else { Seq::<char>::empty() }
}

// ---------------- sub-string search / splitting on a literal separator ----------------
/// index of the first occurrence of sep (searching from `from`), or -1
pub open spec fn first_sub_from(cs: Seq<char>, sep: Seq<char>, from: int) -> int decreases cs.len() - from {
    if from < 0 || from + sep.len() > cs.len() { -1 }
    else if sep.is_prefix_of(cs.skip(from)) { from }
    else { first_sub_from(cs, sep, from + 1) }
}
pub open spec fn first_sub(cs: Seq<char>, sep: Seq<char>) -> int { first_sub_from(cs, sep, 0) }
/// str::split_terminator(sep): pieces between successive (non-overlapping, left to right) separators; no empty final piece
pub open spec fn split_term(cs: Seq<char>, sep: Seq<char>) -> Seq<Seq<char>> decreases cs.len() {
    if cs.len() == 0 || sep.len() == 0 { Seq::<Seq<char>>::empty() } else {
        let i = first_sub(cs, sep);
        if i < 0 || i + sep.len() > cs.len() { seq![cs] } else { seq![cs.take(i)] + split_term(cs.skip(i + sep.len()), sep) }
    }
}
// shim D6.rfind_lit
#[verifier::external_body]
fn shim_rfind_str(s: &str, p: &str) -> (r: Option<usize>)
    ensures (match r { Some(i) => last_sub(s@, p@) >= 0 && i == boff(s@, last_sub(s@, p@)), None => last_sub(s@, p@) < 0 })
{ s.rfind(p) }
// shim D6.split_terminator_lit
#[verifier::external_body]
fn shim_split_terminator<'a>(s: &'a str, p: &str) -> (r: Vec<&'a str>)
    ensures r@.len() == split_term(s@, p@).len(), forall|i: int| 0 <= i < r@.len() ==> (#[trigger] r@[i])@ == split_term(s@, p@)[i]
{ s.split_terminator(p).collect() }

pub proof fn lemma_last_sub_upto(cs: Seq<char>, lit: Seq<char>, upto: int)
    requires upto <= cs.len() - lit.len()
    ensures -1 <= last_sub_upto(cs, lit, upto), last_sub_upto(cs, lit, upto) <= upto || last_sub_upto(cs, lit, upto) == -1,
        last_sub_upto(cs, lit, upto) >= 0 ==> lit.is_prefix_of(cs.skip(last_sub_upto(cs, lit, upto))),
        forall|j: int| last_sub_upto(cs, lit, upto) < j <= upto && 0 <= j ==> !lit.is_prefix_of(cs.skip(j)),
    decreases upto + 1
{
    if upto >= 0 && !(upto <= cs.len() && lit.is_prefix_of(cs.skip(upto))) { lemma_last_sub_upto(cs, lit, upto - 1); }
}
pub proof fn lemma_last_sub(cs: Seq<char>, lit: Seq<char>)
    ensures -1 <= last_sub(cs, lit) <= cs.len() - lit.len() || last_sub(cs, lit) == -1,
        last_sub(cs, lit) >= 0 ==> lit.is_prefix_of(cs.skip(last_sub(cs, lit))),
        forall|j: int| last_sub(cs, lit) < j <= cs.len() - lit.len() && 0 <= j ==> !lit.is_prefix_of(cs.skip(j)),
{
    lemma_last_sub_upto(cs, lit, cs.len() - lit.len());
}

// ---------------- suffix / substring on literals ----------------
pub open spec fn is_suffix(p: Seq<char>, s: Seq<char>) -> bool { p.len() <= s.len() && s.skip(s.len() - p.len()) == p }
pub open spec fn has_sub(s: Seq<char>, p: Seq<char>) -> bool { first_sub(s, p) >= 0 }
#[verifier::external_body]
fn shim_ends_with_str(s: &str, p: &str) -> (r: bool)
    ensures r == is_suffix(p@, s@)
{ s.ends_with(p) }
#[verifier::external_body]
fn shim_contains_str(s: &str, p: &str) -> (r: bool)
    ensures r == has_sub(s@, p@)
{ s.contains(p) }
#[verifier::external_body]
fn shim_strip_prefix_contains(s: &str, a: &str, b: &str) -> (r: bool)
    ensures r == (a@.is_prefix_of(s@) && has_sub(s@.skip(a@.len() as int), b@))
{ s.strip_prefix(a).is_some_and(|rest| rest.contains(b)) }

/// str::trim(): leading and trailing Unicode whitespace removed (uninterpreted)
pub uninterp spec fn trimmed(t: Seq<char>) -> Seq<char>;
/// a String value is determined by its characters
pub axiom fn axiom_string_ext(a: String, b: String) ensures (a@ == b@) == (a == b);
/// the String with the given characters (unique by axiom_string_ext)
pub open spec fn str_of(cs: Seq<char>) -> String { choose|s: String| s@ == cs }
// shim D6.trim_to_string
#[verifier::external_body]
fn shim_trim_to_string(s: &str) -> (r: String) ensures r@ == trimmed(s@), r == str_of(trimmed(s@)) { s.trim().to_string() }
pub assume_specification<T, E, F>[core::result::Result::<T, E>::or::<F>](r: core::result::Result<T, E>, res: core::result::Result<T, F>) -> (o: core::result::Result<T, F>)
    ensures o == (match r { Ok(v) => Ok::<T, F>(v), Err(_) => res });
