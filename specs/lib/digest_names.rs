// lib/digest_names.rs -- src/digest.rs: the Digest enum, its error type, and the name tables (FromStr / Display),
// extracted from /repo on every run; included by units distinfo and digest.
// ---------------- src/digest.rs: names ----------------
//@ extract src/digest.rs : enum Digest
#[derive(Clone, Copy, Debug, Eq, Hash, PartialEq)]
pub enum Digest {
    BLAKE2s,
    MD5,
    RMD160,
    SHA1,
    SHA256,
    SHA512,
}
//@ end
//@ extract src/digest.rs : type DigestResult
pub type DigestResult<T> = std::result::Result<T, DigestError>;
//@ end
//@ extract src/digest.rs : enum DigestError
pub enum DigestError {
    Io(std::io::Error),
    Unsupported(String),
}
//@ end

/// Unicode lower-casing (str::to_lowercase): uninterpreted, known to agree with ASCII lower-casing on ASCII text
pub uninterp spec fn ulower(cs: Seq<char>) -> Seq<char>;
pub axiom fn axiom_ulower_ascii(cs: Seq<char>)
    requires is_ascii_chars(cs)
    ensures ulower(cs) == lower_seq(cs);
#[verifier::external_body]
fn shim_to_lowercase(s: &str) -> (r: String)
    ensures r@ == ulower(s@)
{ s.to_lowercase() }

/// the algorithm named by a (case-insensitive) name
pub open spec fn digest_of_name(n: Seq<char>) -> Option<Digest> {
    let l = ulower(n);
    if l == "blake2s"@ { Some(Digest::BLAKE2s) } else if l == "md5"@ { Some(Digest::MD5) } else if l == "rmd160"@ { Some(Digest::RMD160) }
    else if l == "sha1"@ { Some(Digest::SHA1) } else if l == "sha256"@ { Some(Digest::SHA256) } else if l == "sha512"@ { Some(Digest::SHA512) }
    else { None }
}
impl Digest {
//@ extract src/digest.rs : impl FromStr for Digest fn from_str
//@ rewrite D6.str_to_lowercase
    fn from_str(s: &str) -> (r: DigestResult<Self>)
        ensures (match digest_of_name(s@) { Some(d) => r == Ok::<Digest, DigestError>(d), None => r is Err })
    {
        proof {
            assert forall|t: &str| (t == "blake2s") == (#[trigger] t@ == "blake2s"@) by { axiom_str_ext(t, "blake2s"); }
            assert forall|t: &str| (t == "md5") == (#[trigger] t@ == "md5"@) by { axiom_str_ext(t, "md5"); }
            assert forall|t: &str| (t == "rmd160") == (#[trigger] t@ == "rmd160"@) by { axiom_str_ext(t, "rmd160"); }
            assert forall|t: &str| (t == "sha1") == (#[trigger] t@ == "sha1"@) by { axiom_str_ext(t, "sha1"); }
            assert forall|t: &str| (t == "sha256") == (#[trigger] t@ == "sha256"@) by { axiom_str_ext(t, "sha256"); }
            assert forall|t: &str| (t == "sha512") == (#[trigger] t@ == "sha512"@) by { axiom_str_ext(t, "sha512"); }
        }
        match s.to_lowercase().as_str() {
            "blake2s" => Ok(Digest::BLAKE2s),
            "md5" => Ok(Digest::MD5),
            "rmd160" => Ok(Digest::RMD160),
            "sha1" => Ok(Digest::SHA1),
            "sha256" => Ok(Digest::SHA256),
            "sha512" => Ok(Digest::SHA512),
            _ => Err(DigestError::Unsupported(s.to_string())),
        }
    }
//@ end
}


// ---------------- printing a Digest name ----------------
use std::fmt;
pub uninterp spec fn fout(f: &fmt::Formatter) -> Seq<char>;
#[verifier::external_body]
fn shim_fmt_str(f: &mut fmt::Formatter, s: &str) -> (r: fmt::Result)
    ensures r is Ok ==> fout(final(f)) == fout(old(f)) + s@
{ f.write_str(s) }
pub open spec fn digest_name(d: Digest) -> Seq<char> {
    match d { Digest::BLAKE2s => "BLAKE2s"@, Digest::MD5 => "MD5"@, Digest::RMD160 => "RMD160"@, Digest::SHA1 => "SHA1"@, Digest::SHA256 => "SHA256"@, Digest::SHA512 => "SHA512"@ }
}
impl Digest {
//@ extract src/digest.rs : impl fmt::Display for Digest fn fmt
//@ rewrite D8.write_lit
    fn fmt(&self, f: &mut fmt::Formatter) -> (r: fmt::Result)
        ensures r is Ok ==> fout(final(f)) == fout(old(f)) + digest_name(*self)
    {
        match self {
            Digest::BLAKE2s => write!(f, "BLAKE2s"),
            Digest::MD5 => write!(f, "MD5"),
            Digest::RMD160 => write!(f, "RMD160"),
            Digest::SHA1 => write!(f, "SHA1"),
            Digest::SHA256 => write!(f, "SHA256"),
            Digest::SHA512 => write!(f, "SHA512"),
        }
    }
//@ end
}
