// lib/stream_chunks.rs -- C09: independence of the chunking, proved over write_spec (which SummaryStream::write is proved
// equal to, call by call).  For a well-formed stream (records, each followed by a blank line) every partition into
// successive writes succeeds call by call and ends in the same state as one write of the whole stream.
// UTF-8 facts about a cut INSIDE a multi-byte character are proved from vstd::utf8 (lemma_mid_char); the one axiom left is the
// meaning of Utf8Error::error_len() == None (axiom_incomplete_char).

pub open spec fn at(cs: Seq<char>, j: int) -> bool { 0 <= j && j + 2 <= cs.len() && cs[j] == '\n' && cs[j + 1] == '\n' }
pub proof fn lemma_at(cs: Seq<char>, j: int)
    requires 0 <= j <= cs.len()
    ensures NLNL().is_prefix_of(cs.skip(j)) == at(cs, j)
{
    if j + 2 <= cs.len() {
        assert(cs.skip(j)[0] == cs[j] && cs.skip(j)[1] == cs[j + 1]);
        if at(cs, j) { assert(cs.skip(j).take(2) =~= NLNL()); }
        else if NLNL().is_prefix_of(cs.skip(j)) { assert(cs.skip(j).take(2) == NLNL()); assert(cs.skip(j).take(2)[0] == '\n' && cs.skip(j).take(2)[1] == '\n'); }
    }
}
pub proof fn lemma_first_sub_from(cs: Seq<char>, from: int)
    requires 0 <= from
    ensures ({ let r = first_sub_from(cs, NLNL(), from);
        &&& (r == -1 || (from <= r && at(cs, r)))
        &&& forall|j: int| from <= j && (r == -1 || j < r) ==> !at(cs, j) })
    decreases cs.len() - from
{
    if from + 2 <= cs.len() {
        lemma_at(cs, from);
        if !NLNL().is_prefix_of(cs.skip(from)) { lemma_first_sub_from(cs, from + 1); }
    }
}
/// first_sub is the smallest position of a blank-line separator
pub proof fn lemma_first_is(cs: Seq<char>, j: int)
    requires at(cs, j), forall|i: int| 0 <= i < j ==> !at(cs, i)
    ensures first_sub(cs, NLNL()) == j
{ lemma_first_sub_from(cs, 0); }
pub proof fn lemma_first_none(cs: Seq<char>)
    requires forall|i: int| 0 <= i ==> !at(cs, i)
    ensures first_sub(cs, NLNL()) == -1
{ lemma_first_sub_from(cs, 0); }
pub proof fn lemma_no_sep(cs: Seq<char>)
    requires first_sub(cs, NLNL()) < 0
    ensures forall|i: int| !at(cs, i)
{ lemma_first_sub_from(cs, 0); }
/// last_sub is the largest position of a blank-line separator
pub proof fn lemma_last_is(cs: Seq<char>, j: int)
    requires at(cs, j), forall|i: int| j < i ==> !at(cs, i)
    ensures last_sub(cs, NLNL()) == j
{
    lemma_last_sub(cs, NLNL());
    let r = last_sub(cs, NLNL());
    lemma_at(cs, j);
    if r >= 0 { lemma_at(cs, r); }
    if r < j { assert(!NLNL().is_prefix_of(cs.skip(j))); }
}
pub proof fn lemma_last_none(cs: Seq<char>)
    requires forall|i: int| !at(cs, i)
    ensures last_sub(cs, NLNL()) < 0
{
    lemma_last_sub(cs, NLNL());
    let r = last_sub(cs, NLNL());
    if r >= 0 { lemma_at(cs, r); }
}

/// the shape of one record (an entry's lines without the final newline): not empty, no blank line inside, no newline at either end
pub open spec fn rec_shape(x: Seq<char>) -> bool { x.len() > 0 && x[0] != '\n' && x.last() != '\n' && first_sub(x, NLNL()) < 0 }
/// records r0..r, each followed by a blank line
pub open spec fn seg(xs: Seq<Seq<char>>, r0: int, r: int) -> Seq<char> decreases r - r0 {
    if r <= r0 || r0 < 0 || r > xs.len() { Seq::<char>::empty() } else { seg(xs, r0, r - 1) + xs[r - 1] + NLNL() }
}
pub proof fn lemma_seg_front(xs: Seq<Seq<char>>, r0: int, r: int)
    requires 0 <= r0 < r <= xs.len()
    ensures seg(xs, r0, r) == xs[r0] + NLNL() + seg(xs, r0 + 1, r)
    decreases r - r0
{
    if r == r0 + 1 {
        assert(seg(xs, r0, r0) =~= Seq::<char>::empty());
        assert(seg(xs, r0 + 1, r) =~= Seq::<char>::empty());
        assert(seg(xs, r0, r) =~= xs[r0] + NLNL() + seg(xs, r0 + 1, r));
    } else {
        lemma_seg_front(xs, r0, r - 1);
        assert(seg(xs, r0, r) =~= xs[r0] + NLNL() + seg(xs, r0 + 1, r));
    }
}
pub proof fn lemma_seg_ends(xs: Seq<Seq<char>>, r0: int, r: int)
    requires 0 <= r0 < r <= xs.len()
    ensures seg(xs, r0, r).len() >= 2, at(seg(xs, r0, r), seg(xs, r0, r).len() - 2)
{
    let s = seg(xs, r0, r);
    let a = seg(xs, r0, r - 1) + xs[r - 1];
    assert(s =~= a + NLNL());
    assert(s[a.len() as int] == '\n' && s[a.len() as int + 1] == '\n');
}
/// a proper prefix of `x NLNL` (a record that is not complete yet) contains no separator
pub proof fn lemma_partial_no_sep(x: Seq<char>, m: int)
    requires rec_shape(x), 0 <= m < x.len() + 2
    ensures forall|i: int| !at((x + NLNL()).take(m), i)
{
    lemma_no_sep(x);
    let p = (x + NLNL()).take(m);
    assert forall|i: int| !at(p, i) by {
        if at(p, i) {
            if i + 2 <= x.len() { assert(x[i] == p[i] && x[i + 1] == p[i + 1]); assert(at(x, i)); }
            else { assert(i == x.len() - 1); assert(p[i] == x[i]); assert(x.last() == '\n'); }
        }
    }
}
/// complete records followed by an incomplete one: the only separators are the ends of the complete records, so the last one is
/// the end of the last complete record
pub proof fn lemma_last_sep(xs: Seq<Seq<char>>, r0: int, r: int, p: Seq<char>)
    requires 0 <= r0 <= r <= xs.len(), forall|i: int| 0 <= i < xs.len() ==> rec_shape(#[trigger] xs[i]),
        forall|i: int| !at(p, i), p.len() == 0 || p[0] != '\n'
    ensures r == r0 ==> last_sub(seg(xs, r0, r) + p, NLNL()) < 0,
        r > r0 ==> last_sub(seg(xs, r0, r) + p, NLNL()) == seg(xs, r0, r).len() - 2
{
    let a = seg(xs, r0, r);
    let t = a + p;
    if r == r0 {
        assert(t =~= p);
        lemma_last_none(t);
    } else {
        lemma_seg_ends(xs, r0, r);
        let j = a.len() - 2;
        assert(t[j] == a[j] && t[j + 1] == a[j + 1]);
        assert forall|i: int| j < i implies !at(t, i) by {
            if at(t, i) {
                if i == j + 1 { assert(t[i + 1] == p[0]); }
                else { assert(t[i] == p[i - a.len()] && t[i + 1] == p[i + 1 - a.len()]); assert(at(p, i - a.len())); }
            }
        }
        lemma_last_is(t, j);
    }
}
/// splitting complete records at the blank lines gives back the records
pub proof fn lemma_split_seg(xs: Seq<Seq<char>>, r0: int, r: int)
    requires 0 <= r0 <= r <= xs.len(), forall|i: int| 0 <= i < xs.len() ==> rec_shape(#[trigger] xs[i])
    ensures split_term(seg(xs, r0, r), NLNL()) == xs.subrange(r0, r)
    decreases r - r0
{
    if r == r0 {
        assert(xs.subrange(r0, r) =~= Seq::<Seq<char>>::empty());
    } else {
        let x = xs[r0];
        let rest = seg(xs, r0 + 1, r);
        let s = seg(xs, r0, r);
        lemma_seg_front(xs, r0, r);
        lemma_no_sep(x);
        assert(s =~= x + (NLNL() + rest));
        assert(s[x.len() as int] == '\n' && s[x.len() as int + 1] == '\n');
        assert forall|i: int| 0 <= i < x.len() implies !at(s, i) by {
            if at(s, i) {
                if i + 2 <= x.len() { assert(s[i] == x[i] && s[i + 1] == x[i + 1]); assert(at(x, i)); }
                else { assert(s[i] == x[i]); assert(x.last() == '\n'); }
            }
        }
        lemma_first_is(s, x.len() as int);
        assert(s.take(x.len() as int) =~= x);
        assert(s.skip(x.len() as int + 2) =~= rest);
        lemma_split_seg(xs, r0 + 1, r);
        assert(seq![x] + xs.subrange(r0 + 1, r) =~= xs.subrange(r0, r));
    }
}

// ---- positions: bytes -> whole characters -> complete records
pub proof fn lemma_seg_split(xs: Seq<Seq<char>>, r0: int, r: int, r2: int)
    requires 0 <= r0 <= r <= r2 <= xs.len()
    ensures seg(xs, r0, r2) == seg(xs, r0, r) + seg(xs, r, r2)
    decreases r2 - r
{
    if r2 == r { assert(seg(xs, r, r2) =~= Seq::<char>::empty()); assert(seg(xs, r0, r) + seg(xs, r, r2) =~= seg(xs, r0, r)); }
    else {
        lemma_seg_split(xs, r0, r, r2 - 1);
        assert(seg(xs, r0, r2) =~= seg(xs, r0, r) + seg(xs, r, r2));
    }
}
pub open spec fn endp(xs: Seq<Seq<char>>, r: int) -> int { seg(xs, 0, r).len() as int }
pub proof fn lemma_endp_step(xs: Seq<Seq<char>>, r: int)
    requires 0 <= r < xs.len()
    ensures endp(xs, r + 1) == endp(xs, r) + xs[r].len() + 2, endp(xs, 0) == 0
{
    assert(seg(xs, 0, 0) =~= Seq::<char>::empty());
}
pub proof fn lemma_endp_mono(xs: Seq<Seq<char>>, a: int, b: int)
    requires 0 <= a <= b <= xs.len()
    ensures endp(xs, a) <= endp(xs, b), a < b ==> endp(xs, a) + 2 <= endp(xs, b)
    decreases b - a
{
    if a < b { lemma_endp_mono(xs, a, b - 1); lemma_endp_step(xs, b - 1); }
}
/// number of whole characters of t whose encoding lies within the first q bytes
pub open spec fn cw_from(t: Seq<char>, q: int, c: int) -> int decreases c {
    if c <= 0 { 0 } else if c <= t.len() && boff(t, c) <= q { c } else { cw_from(t, q, c - 1) }
}
pub open spec fn cw(t: Seq<char>, q: int) -> int { cw_from(t, q, t.len() as int) }
pub proof fn lemma_cw_from(t: Seq<char>, q: int, c: int)
    requires 0 <= q, 0 <= c <= t.len()
    ensures ({ let r = cw_from(t, q, c); 0 <= r <= c && boff(t, r) <= q && forall|i: int| r < i <= c ==> boff(t, i) > q })
    decreases c
{
    lemma_boff_zero(t);
    if c > 0 && !(boff(t, c) <= q) { lemma_cw_from(t, q, c - 1); }
}
pub proof fn lemma_cw(t: Seq<char>, q: int)
    requires 0 <= q <= encode_utf8(t).len()
    ensures 0 <= cw(t, q) <= t.len(), boff(t, cw(t, q)) <= q, cw(t, q) < t.len() ==> q < boff(t, cw(t, q) + 1),
        cw(t, q) == t.len() ==> q == encode_utf8(t).len()
{
    lemma_cw_from(t, q, t.len() as int);
    lemma_boff_full(t);
}
pub proof fn lemma_cw_mono(t: Seq<char>, q1: int, q2: int)
    requires 0 <= q1 <= q2 <= encode_utf8(t).len()
    ensures cw(t, q1) <= cw(t, q2)
{
    lemma_cw(t, q1); lemma_cw(t, q2);
    lemma_cw_from(t, q2, t.len() as int);
}
/// number of complete records within the first c characters
pub open spec fn nrec_from(xs: Seq<Seq<char>>, c: int, r: int) -> int decreases r {
    if r <= 0 { 0 } else if r <= xs.len() && endp(xs, r) <= c { r } else { nrec_from(xs, c, r - 1) }
}
pub open spec fn nrec(xs: Seq<Seq<char>>, c: int) -> int { nrec_from(xs, c, xs.len() as int) }
pub proof fn lemma_nrec_from(xs: Seq<Seq<char>>, c: int, r: int)
    requires 0 <= c, 0 <= r <= xs.len()
    ensures ({ let n = nrec_from(xs, c, r); 0 <= n <= r && endp(xs, n) <= c && forall|i: int| n < i <= r ==> endp(xs, i) > c })
    decreases r
{
    assert(seg(xs, 0, 0) =~= Seq::<char>::empty());
    if r > 0 && !(endp(xs, r) <= c) { lemma_nrec_from(xs, c, r - 1); }
}
pub proof fn lemma_nrec(xs: Seq<Seq<char>>, c: int)
    requires 0 <= c <= endp(xs, xs.len() as int)
    ensures 0 <= nrec(xs, c) <= xs.len(), endp(xs, nrec(xs, c)) <= c, nrec(xs, c) < xs.len() ==> c < endp(xs, nrec(xs, c) + 1),
        nrec(xs, c) == xs.len() ==> c == endp(xs, xs.len() as int)
{
    lemma_nrec_from(xs, c, xs.len() as int);
}
pub proof fn lemma_nrec_mono(xs: Seq<Seq<char>>, c1: int, c2: int)
    requires 0 <= c1 <= c2 <= endp(xs, xs.len() as int)
    ensures nrec(xs, c1) <= nrec(xs, c2)
{
    lemma_nrec(xs, c1); lemma_nrec(xs, c2);
    lemma_nrec_from(xs, c2, xs.len() as int);
}

// ---- UTF-8: a segment of a valid stream that starts at a character boundary
pub proof fn lemma_enc_sub(t: Seq<char>, a: int, b: int)
    requires 0 <= a <= b <= t.len()
    ensures encode_utf8(t).subrange(boff(t, a), boff(t, b)) == encode_utf8(t.subrange(a, b)),
        boff(t, a) <= boff(t, b) <= encode_utf8(t).len(), boff(t, b) - boff(t, a) == encode_utf8(t.subrange(a, b)).len()
{
    let x = t.take(a); let m = t.subrange(a, b);
    assert(t.take(b) =~= x + m);
    encode_utf8_concat(x, m);
    lemma_boundary(t, b);
    lemma_boff_mono(t, a, b);
    assert(encode_utf8(t).subrange(boff(t, a), boff(t, b)) =~= encode_utf8(m));
}
pub proof fn lemma_boff_sub(t: Seq<char>, a: int, b: int, n: int)
    requires 0 <= a, 0 <= n, a + n <= b <= t.len()
    ensures boff(t.subrange(a, b), n) == boff(t, a + n) - boff(t, a)
{
    assert(t.subrange(a, b).take(n) =~= t.subrange(a, a + n));
    lemma_enc_sub(t, a, a + n);
}
/// a non-empty strict prefix of one character's encoding is not valid UTF-8 (from the definition of valid_utf8)
pub proof fn lemma_char_prefix_invalid(ch: char, r: int)
    requires 1 <= r < encode_utf8(seq![ch]).len()
    ensures !valid_utf8(encode_utf8(seq![ch]).take(r))
{
    encode_utf8_first_scalar(seq![ch]);
    assert(seq![ch].skip(1) =~= Seq::<char>::empty());
    lemma_encode_empty();
    encode_utf8_valid_utf8(seq![ch]);
}
/// the bytes of a valid stream from character a up to a cut INSIDE character c: characters a..c, then a strict prefix of c
pub proof fn lemma_mid_shape(t: Seq<char>, a: int, c: int, q: int)
    requires 0 <= a <= c < t.len(), boff(t, c) < q < boff(t, c + 1)
    ensures ({
        let x = encode_utf8(t.subrange(a, c));
        let g = encode_utf8(seq![t[c]]);
        let r = q - boff(t, c);
        &&& 1 <= r < g.len()
        &&& encode_utf8(t).subrange(boff(t, a), q) == x + g.take(r)
        &&& x.len() == boff(t, c) - boff(t, a)
        &&& boff(t, a) <= boff(t, c) && q <= encode_utf8(t).len()
    })
{
    let s = encode_utf8(t);
    lemma_enc_sub(t, a, c);
    lemma_enc_sub(t, c, c + 1);
    assert(t.subrange(c, c + 1) =~= seq![t[c]]);
    let x = encode_utf8(t.subrange(a, c));
    let g = encode_utf8(seq![t[c]]);
    let r = q - boff(t, c);
    assert(s.subrange(boff(t, a), q) =~= s.subrange(boff(t, a), boff(t, c)) + s.subrange(boff(t, c), boff(t, c + 1)).take(r));
}
pub proof fn lemma_mid_invalid(t: Seq<char>, a: int, c: int, q: int)
    requires 0 <= a <= c < t.len(), boff(t, c) < q < boff(t, c + 1)
    ensures !valid_utf8(encode_utf8(t).subrange(boff(t, a), q))
{
    let s = encode_utf8(t);
    lemma_mid_shape(t, a, c, q);
    let x = encode_utf8(t.subrange(a, c));
    let g = encode_utf8(seq![t[c]]);
    let r = q - boff(t, c);
    let f = g.take(r);
    let p = s.subrange(boff(t, a), q);
    let i = x.len() as int;
    if valid_utf8(p) {
        // the cut between x and f is at a leading byte, hence a character boundary of p, hence f alone would be valid
        encode_utf8_valid_utf8(t);
        lemma_boundary(t, c);
        is_char_boundary_iff_is_leading_byte(s, boff(t, c));
        is_char_boundary_iff_is_leading_byte(p, i);
        assert(p[i] == s[boff(t, c)]);
        valid_utf8_split(p, i);
        assert(p.subrange(i, p.len() as int) =~= f);
        lemma_char_prefix_invalid(t[c], r);
    }
}
/// ... and its longest valid prefix ends at the previous character boundary
pub proof fn lemma_mid_mvp_upto(t: Seq<char>, a: int, c: int, q: int, u: int)
    requires 0 <= a <= c < t.len(), boff(t, c) < q < boff(t, c + 1), boff(t, c) - boff(t, a) <= u <= q - boff(t, a)
    ensures mvp_upto(encode_utf8(t).subrange(boff(t, a), q), u) == boff(t, c) - boff(t, a)
    decreases u
{
    let s = encode_utf8(t);
    let o = boff(t, a);
    let p = s.subrange(o, q);
    lemma_mid_shape(t, a, c, q);
    let i = boff(t, c) - o;
    if u == i {
        lemma_enc_sub(t, a, c);
        assert(p.take(i) =~= s.subrange(o, boff(t, c)));
        encode_utf8_valid_utf8(t.subrange(a, c));
        if i == 0 { }
    } else {
        lemma_mid_invalid(t, a, c, o + u);
        assert(p.take(u) =~= s.subrange(o, o + u));
        lemma_mid_mvp_upto(t, a, c, q, u - 1);
    }
}

/// ASSUMED (the meaning of Utf8Error::error_len() == None, std documentation: "the end of the input was reached unexpectedly ...
/// a char is split across chunks"): a non-empty strict prefix of one character's encoding is reported as an incomplete sequence
pub axiom fn axiom_incomplete_char(ch: char, r: int)
    requires 1 <= r < encode_utf8(seq![ch]).len()
    ensures tail_incomplete(encode_utf8(seq![ch]).take(r));
/// a prefix of a valid UTF-8 stream that is cut inside a multi-byte character is not valid UTF-8, its longest valid prefix ends at
/// the previous character boundary (both PROVED from vstd::utf8), and the remaining bytes are an incomplete sequence (the axiom above)
pub proof fn lemma_mid_char(t: Seq<char>, a: int, c: int, q: int)
    requires 0 <= a <= c < t.len(), boff(t, c) < q < boff(t, c + 1)
    ensures !valid_utf8(encode_utf8(t).subrange(boff(t, a), q)),
        mvp(encode_utf8(t).subrange(boff(t, a), q)) == boff(t, c) - boff(t, a),
        tail_incomplete(encode_utf8(t).subrange(boff(t, c), q)),
{
    lemma_mid_invalid(t, a, c, q);
    lemma_mid_shape(t, a, c, q);
    lemma_mid_mvp_upto(t, a, c, q, q - boff(t, a));
    lemma_mid_shape(t, c, c, q);
    assert(t.subrange(c, c) =~= Seq::<char>::empty());
    lemma_encode_empty();
    let g = encode_utf8(seq![t[c]]);
    let r = q - boff(t, c);
    assert(encode_utf8(t).subrange(boff(t, c), q) =~= g.take(r));
    axiom_incomplete_char(t[c], r);
}
pub proof fn lemma_usable(t: Seq<char>, a: int, q: int)
    requires 0 <= a <= cw(t, q), 0 <= q <= encode_utf8(t).len()
    ensures ({
        let s = encode_utf8(t); let c = cw(t, q); let sg = s.subrange(boff(t, a), q);
        &&& boff(t, a) <= boff(t, c) <= q
        &&& usable_prefix(sg) == Some(boff(t, c) - boff(t, a))
        &&& decode_utf8(sg.take(boff(t, c) - boff(t, a))) == t.subrange(a, c)
    })
{
    let s = encode_utf8(t); let c = cw(t, q); let o = boff(t, a);
    lemma_cw(t, q);
    lemma_enc_sub(t, a, c);
    let sg = s.subrange(o, q);
    let m = t.subrange(a, c);
    assert(sg.take(boff(t, c) - o) =~= s.subrange(o, boff(t, c)));
    encode_utf8_valid_utf8(m);
    encode_utf8_decode_utf8(m);
    if q == boff(t, c) {
        assert(sg =~= s.subrange(o, boff(t, c)));
    } else {
        lemma_boff_full(t);
        assert(c < t.len());
        lemma_mid_char(t, a, c, q);
        assert(sg.skip(boff(t, c) - o) =~= s.subrange(boff(t, c), q));
    }
}

// ---- the stream and the state after any byte prefix of it
pub open spec fn shapes(xs: Seq<Seq<char>>) -> bool { forall|i: int| 0 <= i < xs.len() ==> rec_shape(#[trigger] xs[i]) }
pub open spec fn good_upto(xs: Seq<Seq<char>>, n: int) -> bool { forall|i: int| 0 <= i < n && i < xs.len() ==> parse_entry(#[trigger] xs[i]) is Ok }
pub open spec fn wf_stream(xs: Seq<Seq<char>>) -> bool { shapes(xs) && good_upto(xs, xs.len() as int) }
pub open spec fn stream_chars(xs: Seq<Seq<char>>) -> Seq<char> { seg(xs, 0, xs.len() as int) }
pub open spec fn stream_bytes(xs: Seq<Seq<char>>) -> Seq<u8> { encode_utf8(stream_chars(xs)) }
/// the state a SummaryStream is in after the first q bytes of the stream, HOWEVER they were cut into writes: the complete records
/// parsed, and the bytes after the last complete record buffered
pub open spec fn stv(xs: Seq<Seq<char>>, q: int) -> StreamV {
    let t = stream_chars(xs);
    let r = nrec(xs, cw(t, q));
    StreamV { buf: stream_bytes(xs).subrange(boff(t, endp(xs, r)), q), entries: parsed(xs, r) }
}
pub proof fn lemma_positions(xs: Seq<Seq<char>>, q: int)
    requires 0 <= q <= stream_bytes(xs).len()
    ensures ({
        let t = stream_chars(xs); let c = cw(t, q); let r = nrec(xs, c);
        &&& 0 <= c <= t.len() && boff(t, c) <= q && 0 <= r <= xs.len() && endp(xs, r) <= c && endp(xs, xs.len() as int) == t.len()
        &&& 0 <= boff(t, endp(xs, r)) <= boff(t, c)
        &&& (r < xs.len() ==> c < endp(xs, r + 1))
        &&& (r == xs.len() ==> c == t.len() && q == stream_bytes(xs).len())
    })
{
    let t = stream_chars(xs);
    lemma_cw(t, q);
    lemma_nrec(xs, cw(t, q));
    let r = nrec(xs, cw(t, q));
    lemma_endp_mono(xs, r, xs.len() as int);
    lemma_boff_mono(t, endp(xs, r), cw(t, q));
    lemma_boff_zero(t);
    lemma_boff_mono(t, 0, endp(xs, r));
}
/// the characters between the end of record r0 and character position c (inside record r): complete records r0..r, then the part of record r seen so far
pub proof fn lemma_text_shape(xs: Seq<Seq<char>>, r0: int, r: int, c: int)
    requires shapes(xs), 0 <= r0 <= r <= xs.len(), endp(xs, r) <= c, (r < xs.len() ==> c < endp(xs, r + 1)), (r == xs.len() ==> c == endp(xs, r))
    ensures ({
        let t = stream_chars(xs);
        let pp = t.subrange(endp(xs, r), c);
        &&& endp(xs, r0) <= endp(xs, r) && c <= t.len()
        &&& t.subrange(endp(xs, r0), c) == seg(xs, r0, r) + pp
        &&& (forall|i: int| !at(pp, i)) && (pp.len() == 0 || pp[0] != '\n')
    })
{
    let t = stream_chars(xs);
    let k = xs.len() as int;
    lemma_endp_mono(xs, r0, r);
    lemma_endp_mono(xs, r, k);
    lemma_seg_split(xs, 0, r0, r);
    lemma_seg_split(xs, 0, r, k);
    let pp = t.subrange(endp(xs, r), c);
    if r < k {
        lemma_endp_step(xs, r);
        lemma_endp_mono(xs, r + 1, k);
        lemma_seg_front(xs, r, k);
        let x = xs[r];
        let m = c - endp(xs, r);
        assert(t =~= seg(xs, 0, r) + (x + NLNL() + seg(xs, r + 1, k)));
        assert(pp =~= (x + NLNL()).take(m));
        lemma_partial_no_sep(x, m);
        if pp.len() > 0 { assert(pp[0] == x[0]); }
    } else {
        assert(pp.len() == 0);
    }
    assert(t.subrange(endp(xs, r0), c) =~= seg(xs, r0, r) + pp) by {
        assert(t.subrange(0, endp(xs, r)) =~= seg(xs, 0, r));
        assert(seg(xs, 0, r) =~= seg(xs, 0, r0) + seg(xs, r0, r));
    }
}
/// ONE WRITE (whatever the records contain): the records completed by this write are parsed in order; the first one that does
/// not parse makes the write fail with exactly the entries before it, otherwise the state after q bytes is reached
pub open spec fn step_outcome(xs: Seq<Seq<char>>, p: int, q: int) -> core::result::Result<StreamV, Seq<Map<SummaryVariable, VV>>> {
    let t = stream_chars(xs);
    let rp = nrec(xs, cw(t, p)); let rq = nrec(xs, cw(t, q));
    let recs = xs.subrange(rp, rq);
    let f = first_bad(recs, 0);
    if rq > rp && f < recs.len() { Err(parsed(xs, rp) + parsed(recs, f)) } else { Ok(stv(xs, q)) }
}
pub proof fn lemma_step_core(xs: Seq<Seq<char>>, p: int, q: int)
    requires shapes(xs), 0 <= p <= q <= stream_bytes(xs).len()
    ensures write_spec(stv(xs, p), stream_bytes(xs).subrange(p, q)) == step_outcome(xs, p, q),
        nrec(xs, cw(stream_chars(xs), p)) <= nrec(xs, cw(stream_chars(xs), q)) <= xs.len(), 0 <= nrec(xs, cw(stream_chars(xs), p))
{
    let t = stream_chars(xs); let s = stream_bytes(xs); let k = xs.len() as int;
    let cp = cw(t, p); let cq = cw(t, q); let rp = nrec(xs, cp); let rq = nrec(xs, cq);
    lemma_positions(xs, p); lemma_positions(xs, q);
    lemma_cw_mono(t, p, q);
    lemma_nrec_mono(xs, cp, cq);
    let ep = endp(xs, rp); let eq = endp(xs, rq);
    let o = boff(t, ep);
    let st = stv(xs, p);
    let all = st.buf + s.subrange(p, q);
    assert(all =~= s.subrange(o, q));
    lemma_usable(t, ep, q);
    let vp = boff(t, cq) - o;
    let text = t.subrange(ep, cq);
    assert(decode_utf8(all.take(vp)) == text);
    lemma_text_shape(xs, rp, rq, cq);
    let pp = t.subrange(eq, cq);
    lemma_last_sep(xs, rp, rq, pp);
    let j = last_sub(text, NLNL());
    if rq == rp {
        assert(stv(xs, q).buf =~= all);
    } else {
        let a = seg(xs, rp, rq);
        assert(j == a.len() - 2);
        assert(text.take(j + 2) =~= a);
        lemma_split_seg(xs, rp, rq);
        let recs = xs.subrange(rp, rq);
        lemma_first_bad_end(recs, 0);
        lemma_endp_mono(xs, rp, rq);
        assert(a.len() == eq - ep) by { lemma_seg_split(xs, 0, rp, rq); }
        lemma_boff_sub(t, ep, cq, j + 2);
        assert(boff(text, j + 2) == boff(t, eq) - o);
        assert(all.skip(boff(text, j + 2)) =~= s.subrange(boff(t, eq), q));
        if first_bad(recs, 0) == recs.len() {
            assert forall|i: int| 0 <= i < recs.len() implies parse_entry(#[trigger] recs[i]) is Ok by {}
            assert(st.entries + parsed(recs, recs.len() as int) =~= parsed(xs, rq)) by {
                assert forall|i: int| 0 <= i < recs.len() implies recs[i] == xs[rp + i] by {}
            }
        }
    }
}
/// ONE WRITE of a stream whose records completed so far all parse: the state after q bytes
pub proof fn lemma_step(xs: Seq<Seq<char>>, p: int, q: int)
    requires shapes(xs), 0 <= p <= q <= stream_bytes(xs).len(), good_upto(xs, nrec(xs, cw(stream_chars(xs), q)))
    ensures write_spec(stv(xs, p), stream_bytes(xs).subrange(p, q)) == Ok::<StreamV, Seq<Map<SummaryVariable, VV>>>(stv(xs, q))
{
    lemma_step_core(xs, p, q);
    let t = stream_chars(xs);
    let rp = nrec(xs, cw(t, p)); let rq = nrec(xs, cw(t, q));
    let recs = xs.subrange(rp, rq);
    lemma_first_bad_end(recs, 0);
    assert forall|i: int| 0 <= i < recs.len() implies parse_entry(#[trigger] recs[i]) is Ok by { assert(recs[i] == xs[rp + i]); }
}
pub proof fn lemma_first_bad_at(recs: Seq<Seq<char>>, i: int, f: int)
    requires 0 <= i <= f < recs.len(), forall|k: int| i <= k < f ==> parse_entry(#[trigger] recs[k]) is Ok, parse_entry(recs[f]) is Err
    ensures first_bad(recs, i) == f
    decreases f - i
{
    if i < f { lemma_first_bad_at(recs, i + 1, f); }
}
/// THE WRITE THAT COMPLETES THE FIRST MALFORMED RECORD fails with exactly the well-formed entries preceding it
pub proof fn lemma_step_bad(xs: Seq<Seq<char>>, b: int, p: int, q: int)
    requires shapes(xs), 0 <= p <= q <= stream_bytes(xs).len(), 0 <= b < xs.len(), good_upto(xs, b), parse_entry(xs[b]) is Err,
        nrec(xs, cw(stream_chars(xs), p)) <= b < nrec(xs, cw(stream_chars(xs), q))
    ensures write_spec(stv(xs, p), stream_bytes(xs).subrange(p, q)) == Err::<StreamV, Seq<Map<SummaryVariable, VV>>>(parsed(xs, b))
{
    lemma_step_core(xs, p, q);
    let t = stream_chars(xs);
    let rp = nrec(xs, cw(t, p)); let rq = nrec(xs, cw(t, q));
    let recs = xs.subrange(rp, rq);
    assert forall|k: int| 0 <= k < b - rp implies parse_entry(#[trigger] recs[k]) is Ok by { assert(recs[k] == xs[rp + k]); }
    assert(recs[b - rp] == xs[b]);
    lemma_first_bad_at(recs, 0, b - rp);
    assert(parsed(xs, rp) + parsed(recs, b - rp) =~= parsed(xs, b)) by {
        assert forall|i: int| 0 <= i < b - rp implies recs[i] == xs[rp + i] by {}
    }
}

// ---- any partition into successive writes
pub open spec fn concat_upto(chunks: Seq<Seq<u8>>, n: int) -> Seq<u8> decreases n {
    if n <= 0 || n > chunks.len() { Seq::<u8>::empty() } else { concat_upto(chunks, n - 1) + chunks[n - 1] }
}
pub open spec fn run(st: StreamV, chunks: Seq<Seq<u8>>, i: int) -> core::result::Result<StreamV, Seq<Map<SummaryVariable, VV>>> decreases chunks.len() - i {
    if i < 0 || i >= chunks.len() { Ok(st) } else { match write_spec(st, chunks[i]) { Ok(s2) => run(s2, chunks, i + 1), Err(e) => Err(e) } }
}
pub proof fn lemma_concat_len(chunks: Seq<Seq<u8>>, a: int, b: int)
    requires 0 <= a <= b <= chunks.len()
    ensures concat_upto(chunks, a).len() <= concat_upto(chunks, b).len(), concat_upto(chunks, a) == concat_upto(chunks, b).take(concat_upto(chunks, a).len() as int)
    decreases b - a
{
    if a == b { assert(concat_upto(chunks, b).take(concat_upto(chunks, b).len() as int) =~= concat_upto(chunks, b)); }
    else {
        lemma_concat_len(chunks, a, b - 1);
        assert(concat_upto(chunks, b).take(concat_upto(chunks, a).len() as int) =~= concat_upto(chunks, b - 1).take(concat_upto(chunks, a).len() as int));
    }
}
pub proof fn lemma_run(xs: Seq<Seq<char>>, chunks: Seq<Seq<u8>>, i: int)
    requires wf_stream(xs), concat_upto(chunks, chunks.len() as int) == stream_bytes(xs), 0 <= i <= chunks.len()
    ensures run(stv(xs, concat_upto(chunks, i).len() as int), chunks, i) == Ok::<StreamV, Seq<Map<SummaryVariable, VV>>>(stv(xs, stream_bytes(xs).len() as int))
    decreases chunks.len() - i
{
    let s = stream_bytes(xs);
    if i < chunks.len() {
        let p = concat_upto(chunks, i).len() as int;
        let q = concat_upto(chunks, i + 1).len() as int;
        lemma_concat_len(chunks, i, i + 1);
        lemma_concat_len(chunks, i + 1, chunks.len() as int);
        let c1 = concat_upto(chunks, i + 1);
        assert(c1 == s.take(q));
        assert(c1 =~= concat_upto(chunks, i) + chunks[i]);
        assert(q == p + chunks[i].len());
        assert(s.subrange(p, q) =~= c1.skip(p));
        assert(c1.skip(p) =~= chunks[i]);
        assert(0 <= p <= q <= s.len());
        lemma_positions(xs, q);
        lemma_step(xs, p, q);
        lemma_run(xs, chunks, i + 1);
    }
}
/// C09: for a well-formed stream, EVERY way of cutting it into successive writes succeeds call by call and ends with exactly the
/// stream's entries in order and nothing buffered - the same state as writing the stream in one call
pub proof fn theorem_chunking(xs: Seq<Seq<char>>, chunks: Seq<Seq<u8>>)
    requires wf_stream(xs), concat_upto(chunks, chunks.len() as int) == stream_bytes(xs)
    ensures
        run(StreamV { buf: Seq::<u8>::empty(), entries: Seq::<Map<SummaryVariable, VV>>::empty() }, chunks, 0)
            == Ok::<StreamV, Seq<Map<SummaryVariable, VV>>>(StreamV { buf: Seq::<u8>::empty(), entries: parsed(xs, xs.len() as int) }),
        write_spec(StreamV { buf: Seq::<u8>::empty(), entries: Seq::<Map<SummaryVariable, VV>>::empty() }, stream_bytes(xs))
            == Ok::<StreamV, Seq<Map<SummaryVariable, VV>>>(StreamV { buf: Seq::<u8>::empty(), entries: parsed(xs, xs.len() as int) }),
{
    let t = stream_chars(xs); let s = stream_bytes(xs); let k = xs.len() as int;
    let empty = StreamV { buf: Seq::<u8>::empty(), entries: Seq::<Map<SummaryVariable, VV>>::empty() };
    // the state before any byte is the empty state
    lemma_positions(xs, 0);
    lemma_boff_zero(t);
    assert(cw(t, 0) == 0) by { if cw(t, 0) > 0 { lemma_boff_mono(t, 0, cw(t, 0)); } }
    assert(nrec(xs, 0) == 0) by { if nrec(xs, 0) > 0 { lemma_endp_mono(xs, 0, nrec(xs, 0)); assert(seg(xs, 0, 0) =~= Seq::<char>::empty()); } }
    assert(seg(xs, 0, 0) =~= Seq::<char>::empty());
    assert(stv(xs, 0).buf =~= Seq::<u8>::empty());
    assert(stv(xs, 0).entries =~= Seq::<Map<SummaryVariable, VV>>::empty());
    // the state after all bytes holds every record and an empty buffer
    lemma_positions(xs, s.len() as int);
    lemma_boff_full(t);
    assert(cw(t, s.len() as int) == t.len()) by { lemma_cw_from(t, s.len() as int, t.len() as int); }
    assert(nrec(xs, t.len() as int) == k) by { lemma_nrec_from(xs, t.len() as int, k); }
    assert(stv(xs, s.len() as int).buf =~= Seq::<u8>::empty());
    assert(concat_upto(chunks, 0) =~= Seq::<u8>::empty());
    lemma_run(xs, chunks, 0);
    lemma_step(xs, 0, s.len() as int);
    assert(s.subrange(0, s.len() as int) =~= s);
}

pub proof fn lemma_run_bad(xs: Seq<Seq<char>>, b: int, chunks: Seq<Seq<u8>>, i: int)
    requires shapes(xs), 0 <= b < xs.len(), good_upto(xs, b), parse_entry(xs[b]) is Err,
        concat_upto(chunks, chunks.len() as int) == stream_bytes(xs), 0 <= i <= chunks.len(),
        nrec(xs, cw(stream_chars(xs), concat_upto(chunks, i).len() as int)) <= b
    ensures run(stv(xs, concat_upto(chunks, i).len() as int), chunks, i) == Err::<StreamV, Seq<Map<SummaryVariable, VV>>>(parsed(xs, b))
    decreases chunks.len() - i
{
    let s = stream_bytes(xs); let t = stream_chars(xs);
    if i == chunks.len() {
        // all bytes written: every record is complete, so the malformed one would already have been reached
        lemma_positions(xs, s.len() as int);
        lemma_boff_full(t);
        assert(cw(t, s.len() as int) == t.len()) by { lemma_cw_from(t, s.len() as int, t.len() as int); }
        assert(nrec(xs, t.len() as int) == xs.len()) by { lemma_nrec_from(xs, t.len() as int, xs.len() as int); }
    } else {
        let p = concat_upto(chunks, i).len() as int;
        let q = concat_upto(chunks, i + 1).len() as int;
        lemma_concat_len(chunks, i, i + 1);
        lemma_concat_len(chunks, i + 1, chunks.len() as int);
        let c1 = concat_upto(chunks, i + 1);
        assert(c1 == s.take(q));
        assert(c1 =~= concat_upto(chunks, i) + chunks[i]);
        assert(s.subrange(p, q) =~= c1.skip(p));
        assert(c1.skip(p) =~= chunks[i]);
        lemma_positions(xs, q);
        if nrec(xs, cw(t, q)) <= b {
            lemma_step(xs, p, q);
            lemma_run_bad(xs, b, chunks, i + 1);
        } else {
            lemma_step_bad(xs, b, p, q);
        }
    }
}
/// C09, malformed streams: whatever the partition, the sequence of writes fails, and the entries collected up to the failure are exactly
/// the well-formed entries preceding the first malformed one (the failing write is the first one that completes that entry: lemma_step_bad)
pub proof fn theorem_chunking_malformed(xs: Seq<Seq<char>>, b: int, chunks: Seq<Seq<u8>>)
    requires shapes(xs), 0 <= b < xs.len(), good_upto(xs, b), parse_entry(xs[b]) is Err, concat_upto(chunks, chunks.len() as int) == stream_bytes(xs)
    ensures run(StreamV { buf: Seq::<u8>::empty(), entries: Seq::<Map<SummaryVariable, VV>>::empty() }, chunks, 0)
        == Err::<StreamV, Seq<Map<SummaryVariable, VV>>>(parsed(xs, b))
{
    let t = stream_chars(xs);
    lemma_positions(xs, 0);
    lemma_boff_zero(t);
    assert(cw(t, 0) == 0) by { if cw(t, 0) > 0 { lemma_boff_mono(t, 0, cw(t, 0)); } }
    assert(nrec(xs, 0) == 0) by { if nrec(xs, 0) > 0 { lemma_endp_mono(xs, 0, nrec(xs, 0)); assert(seg(xs, 0, 0) =~= Seq::<char>::empty()); } }
    assert(seg(xs, 0, 0) =~= Seq::<char>::empty());
    assert(stv(xs, 0).buf =~= Seq::<u8>::empty());
    assert(stv(xs, 0).entries =~= Seq::<Map<SummaryVariable, VV>>::empty());
    assert(concat_upto(chunks, 0) =~= Seq::<u8>::empty());
    lemma_run_bad(xs, b, chunks, 0);
}

// ---- C09, last clause: printing the collected entries of a stream of canonical records reproduces the stream
/// a printed text ends in a newline that is not preceded by a carriage return
pub open spec fn good_tail(t: Seq<char>) -> bool { t.len() >= 2 && t.last() == '\n' && t[t.len() - 2] != '\r' }
pub proof fn lemma_tail_concat(a: Seq<char>, b: Seq<char>)
    requires good_tail(b)
    ensures good_tail(a + b)
{
    let t = a + b;
    assert(t.last() == b.last());
    assert(t[t.len() - 2] == b[b.len() - 2]);
}
pub proof fn lemma_kv_tail(name: Seq<char>, val: Seq<char>)
    requires !val.contains('\r')
    ensures good_tail(kv_line(name, val))
{
    let t = kv_line(name, val);
    assert(t.len() == name.len() + 1 + val.len() + 1);
    assert(t.last() == '\n');
    if val.len() == 0 { assert(t[t.len() - 2] == '='); }
    else { assert(t[t.len() - 2] == val[val.len() - 1]); if t[t.len() - 2] == '\r' { assert(val.contains('\r')); } }
}
pub proof fn lemma_lines_of_tail(v: SummaryVariable, val: VV)
    requires valid_value(v, val)
    ensures good_tail(lines_of(v, val))
{
    match val {
        VV::S(s) => { lemma_kv_tail(name_of(v), s); }
        VV::I(i) => { lemma_i64_text(i as i64); lemma_kv_tail(name_of(v), i64_text(i)); }
        VV::A(a) => {
            let n = a.len() as int;
            assert(no_nl(a[n - 1]));
            lemma_kv_tail(name_of(v), a[n - 1]);
            lemma_tail_concat(a_lines(name_of(v), a, n - 1), kv_line(name_of(v), a[n - 1]));
        }
    }
}
pub proof fn lemma_render_from_tail(m: Map<SummaryVariable, VV>, keys: Seq<SummaryVariable>, i: int)
    requires 0 <= i < keys.len(), forall|j: int| 0 <= j < keys.len() ==> m.contains_key(#[trigger] keys[j]) && valid_value(keys[j], m[keys[j]])
    ensures good_tail(render_from(m, keys, i))
    decreases keys.len() - i
{
    lemma_lines_of_tail(keys[i], m[keys[i]]);
    if i + 1 < keys.len() {
        lemma_render_from_tail(m, keys, i + 1);
        lemma_tail_concat(lines_of(keys[i], m[keys[i]]), render_from(m, keys, i + 1));
    } else {
        assert(render_from(m, keys, i + 1) =~= Seq::<char>::empty());
        assert(render_from(m, keys, i) =~= lines_of(keys[i], m[keys[i]]));
    }
}
pub proof fn lemma_render_tail(m: Map<SummaryVariable, VV>)
    requires canonical(m)
    ensures good_tail(render(m))
{
    let keys = present_vars(m.dom());
    lemma_present_vars(m.dom());
    assert(m.dom().contains(SummaryVariable::Pkgname));
    assert(keys.contains(SummaryVariable::Pkgname));
    assert(keys.len() > 0);
    assert forall|j: int| 0 <= j < keys.len() implies m.contains_key(#[trigger] keys[j]) && valid_value(keys[j], m[keys[j]]) by {
        assert(m.dom().contains(keys[j]));
    }
    lemma_render_from_tail(m, keys, 0);
}
/// a final newline does not change the lines of a text that ends in neither a newline nor a carriage return
pub proof fn lemma_lines_final_nl(x: Seq<char>)
    requires x.len() > 0, x.last() != '\n', x.last() != '\r'
    ensures lines_spec(x + seq!['\n']) == lines_spec(x)
    decreases x.len()
{
    let y = x + seq!['\n'];
    let i = first_index_of(x, '\n');
    lemma_first_index_of(x, '\n');
    lemma_first_index_of(y, '\n');
    if i < 0 {
        // the only newline of y is the appended one
        assert(forall|k: int| 0 <= k < x.len() ==> y[k] == x[k]);
        assert(y[x.len() as int] == '\n');
        assert(first_index_of(y, '\n') == x.len());
        assert(y.take(x.len() as int) =~= x);
        assert(y.skip(x.len() as int + 1) =~= Seq::<char>::empty());
        assert(lines_spec(Seq::<char>::empty()) =~= Seq::<Seq<char>>::empty());
        assert(lines_spec(y) =~= seq![strip_cr(x)]);
    } else {
        assert(y[i] == x[i]);
        assert(forall|k: int| 0 <= k < i ==> y[k] == x[k]);
        assert(first_index_of(y, '\n') == i);
        assert(i < x.len() - 1);
        let rest = x.skip(i + 1);
        assert(y.take(i) =~= x.take(i));
        assert(y.skip(i + 1) =~= rest + seq!['\n']);
        assert(rest.last() == x.last());
        lemma_lines_final_nl(rest);
    }
}
/// a stream of canonical records: record i is the printed form of the canonical entry ms[i] without its final newline
pub open spec fn canon_stream(xs: Seq<Seq<char>>, ms: Seq<Map<SummaryVariable, VV>>) -> bool {
    xs.len() == ms.len() && forall|i: int| 0 <= i < xs.len() ==>
        rec_shape(#[trigger] xs[i]) && canonical(ms[i]) && xs[i] + seq!['\n'] == render(ms[i])
}
pub proof fn lemma_render_all_seg(xs: Seq<Seq<char>>, ms: Seq<Map<SummaryVariable, VV>>, n: int)
    requires canon_stream(xs, ms), 0 <= n <= xs.len()
    ensures render_all(ms, n) == seg(xs, 0, n)
    decreases n
{
    if n > 0 {
        lemma_render_all_seg(xs, ms, n - 1);
        assert(rec_shape(xs[n - 1]));
        assert(render(ms[n - 1]) + seq!['\n'] =~= xs[n - 1] + NLNL());
        assert(render_all(ms, n) =~= render_all(ms, n - 1) + (render(ms[n - 1]) + seq!['\n']));
        assert(seg(xs, 0, n) =~= seg(xs, 0, n - 1) + (xs[n - 1] + NLNL()));
    }
}
/// C09, last clause: a stream of canonical records is well formed, its entries are those records' values, and printing the
/// collected entries (Display for SummaryStream == render_all, proved on the real function) reproduces the stream
pub proof fn theorem_stream_print(xs: Seq<Seq<char>>, ms: Seq<Map<SummaryVariable, VV>>)
    requires canon_stream(xs, ms)
    ensures wf_stream(xs), parsed(xs, xs.len() as int) == ms, render_all(ms, ms.len() as int) == stream_chars(xs)
{
    assert forall|i: int| 0 <= i < xs.len() implies parse_entry(#[trigger] xs[i]) == Ok::<Map<SummaryVariable, VV>, PEK>(ms[i]) by {
        assert(rec_shape(xs[i]));
        lemma_render_tail(ms[i]);
        let x = xs[i];
        let t = x + seq!['\n'];
        assert(t[t.len() - 2] == x[x.len() - 1]);
        lemma_lines_final_nl(x);
        theorem_parse_render(ms[i]);
    }
    assert(parsed(xs, xs.len() as int) =~= ms);
    lemma_render_all_seg(xs, ms, xs.len() as int);
}
