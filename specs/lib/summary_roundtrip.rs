// lib/summary_roundtrip.rs -- C07: parse_entry(render(m)) == Ok(m) for every canonical value assignment m, proved over the
// spec functions that Summary::from_str (== parse_entry) and Display for Summary (== render) are proved equal to.
// Included at the end of unit summary.  No code of /repo appears here: these are lemmas over the contracts.

pub open spec fn no_nl(s: Seq<char>) -> bool { !s.contains('\n') && !s.contains('\r') }
/// a value of the right kind for its variable, without line breaks (C07: "no line breaks inside values", "non-empty line lists")
pub open spec fn valid_value(v: SummaryVariable, val: VV) -> bool {
    if kind(v) == 0 { val is S && no_nl(val->S_0) }
    else if kind(v) == 1 { val is I && i64::MIN <= val->I_0 <= i64::MAX }
    else { val is A && val->A_0.len() > 0 && forall|i: int| 0 <= i < val->A_0.len() ==> no_nl(#[trigger] val->A_0[i]) }
}
pub open spec fn canonical(m: Map<SummaryVariable, VV>) -> bool {
    completed(m) && forall|v: SummaryVariable| m.contains_key(v) ==> valid_value(v, #[trigger] m[v])
}

// ---- lines_spec over newline-terminated blocks
pub proof fn lemma_first_index_concat(a: Seq<char>, b: Seq<char>, c: char)
    requires !a.contains(c)
    ensures first_index_of(a + b, c) == (if first_index_of(b, c) < 0 { -1 } else { a.len() + first_index_of(b, c) })
    decreases a.len()
{
    if a.len() == 0 { assert(a + b =~= b); }
    else {
        assert(a[0] != c) by { if a[0] == c { assert(a.contains(c)); } }
        assert((a + b).skip(1) =~= a.skip(1) + b);
        assert(!a.skip(1).contains(c)) by { if a.skip(1).contains(c) { let k = choose|k: int| 0 <= k < a.skip(1).len() && a.skip(1)[k] == c; assert(a[k + 1] == c); assert(a.contains(c)); } }
        lemma_first_index_concat(a.skip(1), b, c);
        assert((a + b)[0] == a[0]);
    }
}
/// one complete line `l` (no line break inside) followed by anything
pub proof fn lemma_lines_cons(l: Seq<char>, rest: Seq<char>)
    requires no_nl(l)
    ensures lines_spec(l + seq!['\n'] + rest) == seq![l] + lines_spec(rest)
{
    let t = l + seq!['\n'] + rest;
    let nl = seq!['\n'] + rest;
    assert(t =~= l + nl);
    assert(first_index_of(nl, '\n') == 0);
    lemma_first_index_concat(l, nl, '\n');
    assert(first_index_of(t, '\n') == l.len());
    assert(t.take(l.len() as int) =~= l);
    assert(t.skip(l.len() as int + 1) =~= rest);
    assert(strip_cr(l) == l) by { if l.len() > 0 && l.last() == '\r' { assert(l.contains('\r')); } }
}
pub proof fn lemma_fold_concat(a: Seq<Seq<char>>, b: Seq<Seq<char>>, i: int, m: Map<SummaryVariable, VV>)
    requires 0 <= i <= a.len()
    ensures fold_lines(a + b, i, m) == (match fold_lines(a, i, m) { Ok(m1) => fold_lines(b, 0, m1), Err(e) => Err(e) })
    decreases a.len() - i
{
    if i == a.len() {
        lemma_fold_shift(a, b, 0, m);
    } else {
        assert((a + b)[i] == a[i]);
        match step(m, a[i]) { Ok(m2) => lemma_fold_concat(a, b, i + 1, m2), Err(_) => {} }
    }
}
pub proof fn lemma_fold_shift(a: Seq<Seq<char>>, b: Seq<Seq<char>>, j: int, m: Map<SummaryVariable, VV>)
    requires 0 <= j <= b.len()
    ensures fold_lines(a + b, a.len() + j, m) == fold_lines(b, j, m)
    decreases b.len() - j
{
    if j < b.len() {
        assert((a + b)[a.len() + j] == b[j]);
        match step(m, b[j]) { Ok(m2) => lemma_fold_shift(a, b, j + 1, m2), Err(_) => {} }
    }
}
/// parsing one printed line `NAME=val`
pub proof fn lemma_step_line(m: Map<SummaryVariable, VV>, v: SummaryVariable, val: Seq<char>)
    ensures
        first_index_of(name_of(v) + seq!['='] + val, '=') == name_of(v).len(),
        (name_of(v) + seq!['='] + val).take(name_of(v).len() as int) == name_of(v),
        (name_of(v) + seq!['='] + val).skip(name_of(v).len() as int + 1) == val,
        var_of_name(name_of(v)) == Some(v),
{
    lemma_name_roundtrip(v);
    let n = name_of(v);
    let l = n + seq!['='] + val;
    let e = seq!['='] + val;
    assert(l =~= n + e);
    assert(first_index_of(e, '=') == 0);
    lemma_first_index_concat(n, e, '=');
    assert(l.take(n.len() as int) =~= n);
    assert(l.skip(n.len() as int + 1) =~= val);
}

// ---- the variables present in a map, in pkg_summary order: members of the domain, strictly increasing, complete
pub open spec fn idx_of(v: SummaryVariable) -> int { match v { SummaryVariable::BuildDate => 0, SummaryVariable::Categories => 1, SummaryVariable::Comment => 2, SummaryVariable::Conflicts => 3, SummaryVariable::Depends => 4, SummaryVariable::Description => 5, SummaryVariable::FileCksum => 6, SummaryVariable::FileName => 7, SummaryVariable::FileSize => 8, SummaryVariable::Homepage => 9, SummaryVariable::License => 10, SummaryVariable::MachineArch => 11, SummaryVariable::Opsys => 12, SummaryVariable::OsVersion => 13, SummaryVariable::PkgOptions => 14, SummaryVariable::Pkgname => 15, SummaryVariable::Pkgpath => 16, SummaryVariable::PkgtoolsVersion => 17, SummaryVariable::PrevPkgpath => 18, SummaryVariable::Provides => 19, SummaryVariable::Requires => 20, SummaryVariable::SizePkg => 21, SummaryVariable::Supersedes => 22 } }
pub proof fn lemma_all_vars()
    ensures ALL_VARS().len() == 23, forall|v: SummaryVariable| 0 <= idx_of(v) < 23 && #[trigger] ALL_VARS()[idx_of(v)] == v,
        forall|i: int| 0 <= i < 23 ==> idx_of(#[trigger] ALL_VARS()[i]) == i
{
    assert forall|v: SummaryVariable| 0 <= idx_of(v) < 23 && #[trigger] ALL_VARS()[idx_of(v)] == v by {}
}
pub open spec fn in_dom(d: Set<SummaryVariable>) -> spec_fn(SummaryVariable) -> bool { |v: SummaryVariable| d.contains(v) }
pub proof fn lemma_pv_prefix(d: Set<SummaryVariable>, k: int)
    requires 0 <= k <= 23
    ensures ({
        let s = ALL_VARS().take(k).filter(in_dom(d));
        &&& forall|j: int| 0 <= j < s.len() ==> d.contains(#[trigger] s[j]) && idx_of(s[j]) < k
        &&& forall|a: int, b: int| 0 <= a < b < s.len() ==> idx_of(#[trigger] s[a]) < idx_of(#[trigger] s[b])
        &&& forall|v: SummaryVariable| d.contains(v) && idx_of(v) < k ==> s.contains(v)
    })
    decreases k
{
    lemma_all_vars();
    reveal(Seq::filter);
    let p = in_dom(d);
    if k == 0 {
        assert(ALL_VARS().take(0).len() == 0);
    } else {
        lemma_pv_prefix(d, k - 1);
        let t = ALL_VARS().take(k);
        assert(t.drop_last() =~= ALL_VARS().take(k - 1));
        assert(t.last() == ALL_VARS()[k - 1]);
        let sub = ALL_VARS().take(k - 1).filter(p);
        let s = t.filter(p);
        if p(t.last()) {
            assert(s == sub.push(t.last()));
            assert forall|v: SummaryVariable| d.contains(v) && idx_of(v) < k implies s.contains(v) by {
                if idx_of(v) < k - 1 { assert(sub.contains(v)); let j = choose|j: int| 0 <= j < sub.len() && sub[j] == v; assert(s[j] == v); }
                else { assert(v == ALL_VARS()[k - 1]); assert(s[sub.len() as int] == v); }
            }
        } else {
            assert(s == sub);
            assert forall|v: SummaryVariable| d.contains(v) && idx_of(v) < k implies s.contains(v) by {
                if idx_of(v) == k - 1 { assert(v == ALL_VARS()[k - 1]); }
            }
        }
    }
}
pub proof fn lemma_present_vars(d: Set<SummaryVariable>)
    ensures ({
        let s = present_vars(d);
        &&& forall|j: int| 0 <= j < s.len() ==> d.contains(#[trigger] s[j])
        &&& forall|a: int, b: int| 0 <= a < b < s.len() ==> #[trigger] s[a] != #[trigger] s[b]
        &&& forall|v: SummaryVariable| d.contains(v) ==> s.contains(v)
    })
{
    lemma_all_vars();
    lemma_pv_prefix(d, 23);
    assert(ALL_VARS().take(23) =~= ALL_VARS());
    assert(present_vars(d) == ALL_VARS().filter(in_dom(d)));
    let s = present_vars(d);
    assert forall|a: int, b: int| 0 <= a < b < s.len() implies #[trigger] s[a] != #[trigger] s[b] by { assert(idx_of(s[a]) < idx_of(s[b])); }
}

// ---- one variable's block of lines
pub open spec fn line_of(v: SummaryVariable, val: Seq<char>) -> Seq<char> { name_of(v) + seq!['='] + val }
pub open spec fn lines_a(v: SummaryVariable, vals: Seq<Seq<char>>, n: int) -> Seq<Seq<char>> { Seq::new(n as nat, |i: int| line_of(v, vals[i])) }
pub open spec fn block_lines(v: SummaryVariable, val: VV) -> Seq<Seq<char>> {
    match val { VV::S(s) => seq![line_of(v, s)], VV::I(i) => seq![line_of(v, i64_text(i))], VV::A(a) => lines_a(v, a, a.len() as int) }
}
pub proof fn lemma_name_no_cr(v: SummaryVariable) ensures !name_of(v).contains('\r'), !name_of(v).contains('\n')
{
    lemma_name_roundtrip(v);
    let n = name_of(v);
    assert forall|i: int| 0 <= i < n.len() implies n[i] != '\r' by {
        reveal_strlit("BUILD_DATE"); reveal_strlit("CATEGORIES"); reveal_strlit("COMMENT"); reveal_strlit("CONFLICTS"); reveal_strlit("DEPENDS");
        reveal_strlit("DESCRIPTION"); reveal_strlit("FILE_CKSUM"); reveal_strlit("FILE_NAME"); reveal_strlit("FILE_SIZE"); reveal_strlit("HOMEPAGE");
        reveal_strlit("LICENSE"); reveal_strlit("MACHINE_ARCH"); reveal_strlit("OPSYS"); reveal_strlit("OS_VERSION"); reveal_strlit("PKG_OPTIONS");
        reveal_strlit("PKGNAME"); reveal_strlit("PKGPATH"); reveal_strlit("PKGTOOLS_VERSION"); reveal_strlit("PREV_PKGPATH"); reveal_strlit("PROVIDES");
        reveal_strlit("REQUIRES"); reveal_strlit("SIZE_PKG"); reveal_strlit("SUPERSEDES");
    }
}
pub proof fn lemma_line_no_nl(v: SummaryVariable, val: Seq<char>)
    requires no_nl(val)
    ensures no_nl(line_of(v, val)), kv_line(name_of(v), val) == line_of(v, val) + seq!['\n']
{
    lemma_name_no_cr(v);
    let l = line_of(v, val);
    let n = name_of(v);
    assert forall|i: int| 0 <= i < l.len() implies l[i] != '\n' && l[i] != '\r' by {
        if i < n.len() { assert(l[i] == n[i]); assert(n.contains(n[i])); }
        else if i == n.len() { assert(l[i] == '='); }
        else { assert(l[i] == val[i - n.len() - 1]); assert(val.contains(val[i - n.len() - 1])); }
    }
    assert(kv_line(n, val) =~= l + seq!['\n']);
}
pub proof fn lemma_a_lines(v: SummaryVariable, vals: Seq<Seq<char>>, n: int, rest: Seq<char>)
    requires 0 <= n <= vals.len(), forall|i: int| 0 <= i < vals.len() ==> no_nl(#[trigger] vals[i])
    ensures lines_spec(a_lines(name_of(v), vals, n) + rest) == lines_a(v, vals, n) + lines_spec(rest)
    decreases n
{
    if n == 0 {
        assert(a_lines(name_of(v), vals, 0) + rest =~= rest);
        assert(lines_a(v, vals, 0) + lines_spec(rest) =~= lines_spec(rest));
    } else {
        let val = vals[n - 1];
        lemma_line_no_nl(v, val);
        let rest2 = kv_line(name_of(v), val) + rest;
        assert(a_lines(name_of(v), vals, n) + rest =~= a_lines(name_of(v), vals, n - 1) + rest2);
        lemma_a_lines(v, vals, n - 1, rest2);
        assert(rest2 =~= line_of(v, val) + seq!['\n'] + rest);
        lemma_lines_cons(line_of(v, val), rest);
        assert(lines_a(v, vals, n - 1) + (seq![line_of(v, val)] + lines_spec(rest)) =~= lines_a(v, vals, n) + lines_spec(rest));
    }
}
pub proof fn lemma_block_lines(v: SummaryVariable, val: VV, rest: Seq<char>)
    requires valid_value(v, val)
    ensures lines_spec(lines_of(v, val) + rest) == block_lines(v, val) + lines_spec(rest)
{
    match val {
        VV::S(s) => { lemma_line_no_nl(v, s); assert(lines_of(v, val) + rest =~= line_of(v, s) + seq!['\n'] + rest); lemma_lines_cons(line_of(v, s), rest); }
        VV::I(i) => {
            lemma_i64_text(i as i64);
            let s = i64_text(i);
            lemma_line_no_nl(v, s); assert(lines_of(v, val) + rest =~= line_of(v, s) + seq!['\n'] + rest); lemma_lines_cons(line_of(v, s), rest);
        }
        VV::A(a) => { lemma_a_lines(v, a, a.len() as int, rest); }
    }
}
pub proof fn lemma_fold_a(acc: Map<SummaryVariable, VV>, v: SummaryVariable, vals: Seq<Seq<char>>, n: int)
    requires kind(v) == 2, !acc.contains_key(v), 1 <= n <= vals.len()
    ensures fold_lines(lines_a(v, vals, n), 0, acc) == Ok::<Map<SummaryVariable, VV>, PEK>(acc.insert(v, VV::A(vals.take(n))))
    decreases n
{
    let l = line_of(v, vals[n - 1]);
    lemma_step_line(acc, v, vals[n - 1]);
    assert(lines_a(v, vals, n) =~= lines_a(v, vals, n - 1) + seq![l]);
    lemma_fold_concat(lines_a(v, vals, n - 1), seq![l], 0, acc);
    if n == 1 {
        assert(lines_a(v, vals, 0).len() == 0);
        assert(list_of(acc, v) =~= Seq::<Seq<char>>::empty());
        assert(Seq::<Seq<char>>::empty().push(vals[0]) =~= vals.take(1));
        assert(fold_lines(seq![l], 0, acc) == fold_lines(seq![l], 1, acc.insert(v, VV::A(vals.take(1)))));
    } else {
        lemma_fold_a(acc, v, vals, n - 1);
        let acc1 = acc.insert(v, VV::A(vals.take(n - 1)));
        assert(list_of(acc1, v) == vals.take(n - 1));
        assert(vals.take(n - 1).push(vals[n - 1]) =~= vals.take(n));
        assert(acc1.insert(v, VV::A(vals.take(n))) =~= acc.insert(v, VV::A(vals.take(n))));
        assert(fold_lines(seq![l], 0, acc1) == fold_lines(seq![l], 1, acc.insert(v, VV::A(vals.take(n)))));
    }
}
pub proof fn lemma_fold_block(acc: Map<SummaryVariable, VV>, v: SummaryVariable, val: VV)
    requires valid_value(v, val), !acc.contains_key(v)
    ensures fold_lines(block_lines(v, val), 0, acc) == Ok::<Map<SummaryVariable, VV>, PEK>(acc.insert(v, val))
{
    match val {
        VV::S(s) => {
            lemma_step_line(acc, v, s);
            assert(fold_lines(seq![line_of(v, s)], 0, acc) == fold_lines(seq![line_of(v, s)], 1, acc.insert(v, val)));
        }
        VV::I(i) => {
            lemma_i64_text(i as i64);
            lemma_step_line(acc, v, i64_text(i));
            assert(fold_lines(seq![line_of(v, i64_text(i))], 0, acc) == fold_lines(seq![line_of(v, i64_text(i))], 1, acc.insert(v, val)));
        }
        VV::A(a) => { lemma_fold_a(acc, v, a, a.len() as int); assert(a.take(a.len() as int) =~= a); }
    }
}

// ---- the whole entry
pub open spec fn acc_upto(m: Map<SummaryVariable, VV>, keys: Seq<SummaryVariable>, i: int) -> Map<SummaryVariable, VV> {
    m.restrict(keys.take(i).to_set())
}
pub proof fn lemma_acc_upto(m: Map<SummaryVariable, VV>, keys: Seq<SummaryVariable>, i: int)
    requires 0 <= i <= keys.len(), forall|j: int| 0 <= j < keys.len() ==> m.contains_key(#[trigger] keys[j])
    ensures forall|k: SummaryVariable| #[trigger] acc_upto(m, keys, i).contains_key(k) <==> (exists|j: int| 0 <= j < i && keys[j] == k),
        forall|k: SummaryVariable| acc_upto(m, keys, i).contains_key(k) ==> #[trigger] acc_upto(m, keys, i)[k] == m[k]
{
    let t = keys.take(i);
    assert forall|k: SummaryVariable| #[trigger] acc_upto(m, keys, i).contains_key(k) <==> (exists|j: int| 0 <= j < i && keys[j] == k) by {
        if acc_upto(m, keys, i).contains_key(k) { assert(t.to_set().contains(k)); assert(t.contains(k)); let j = choose|j: int| 0 <= j < t.len() && t[j] == k; assert(keys[j] == k); }
        if exists|j: int| 0 <= j < i && keys[j] == k { let j = choose|j: int| 0 <= j < i && keys[j] == k; assert(t[j] == k); assert(t.contains(k)); assert(t.to_set().contains(k)); }
    }
}
pub proof fn lemma_fold_render(m: Map<SummaryVariable, VV>, keys: Seq<SummaryVariable>, i: int)
    requires 0 <= i <= keys.len(),
        forall|j: int| 0 <= j < keys.len() ==> m.contains_key(#[trigger] keys[j]) && valid_value(keys[j], m[keys[j]]),
        forall|a: int, b: int| 0 <= a < b < keys.len() ==> #[trigger] keys[a] != #[trigger] keys[b],
    ensures fold_lines(lines_spec(render_from(m, keys, i)), 0, acc_upto(m, keys, i)) == Ok::<Map<SummaryVariable, VV>, PEK>(acc_upto(m, keys, keys.len() as int))
    decreases keys.len() - i
{
    if i == keys.len() {
        assert(render_from(m, keys, i).len() == 0);
    } else {
        let v = keys[i];
        let acc = acc_upto(m, keys, i);
        let rest = render_from(m, keys, i + 1);
        lemma_block_lines(v, m[v], rest);
        lemma_acc_upto(m, keys, i);
        lemma_acc_upto(m, keys, i + 1);
        assert(!acc.contains_key(v)) by { if acc.contains_key(v) { let j = choose|j: int| 0 <= j < i && keys[j] == v; assert(keys[j] != keys[i]); } }
        lemma_fold_block(acc, v, m[v]);
        lemma_fold_concat(block_lines(v, m[v]), lines_spec(rest), 0, acc);
        assert(acc.insert(v, m[v]) =~= acc_upto(m, keys, i + 1)) by {
            assert forall|k: SummaryVariable| acc_upto(m, keys, i + 1).contains_key(k) <==> acc.insert(v, m[v]).contains_key(k) by {
                if acc_upto(m, keys, i + 1).contains_key(k) { let j = choose|j: int| 0 <= j < i + 1 && keys[j] == k; if j < i { assert(acc.contains_key(k)); } }
                if acc.contains_key(k) { let j = choose|j: int| 0 <= j < i && keys[j] == k; assert(0 <= j < i + 1 && keys[j] == k); }
                if k == v { assert(0 <= i < i + 1 && keys[i] == k); }
            }
        }
        lemma_fold_render(m, keys, i + 1);
    }
}
/// C07: printing a canonical entry and parsing the text back yields the same value for every variable
pub proof fn theorem_parse_render(m: Map<SummaryVariable, VV>)
    requires canonical(m)
    ensures parse_entry(render(m)) == Ok::<Map<SummaryVariable, VV>, PEK>(m)
{
    let keys = present_vars(m.dom());
    lemma_present_vars(m.dom());
    lemma_fold_render(m, keys, 0);
    lemma_acc_upto(m, keys, 0);
    lemma_acc_upto(m, keys, keys.len() as int);
    assert(acc_upto(m, keys, 0) =~= Map::<SummaryVariable, VV>::empty());
    assert(acc_upto(m, keys, keys.len() as int) =~= m) by {
        assert forall|k: SummaryVariable| m.contains_key(k) implies acc_upto(m, keys, keys.len() as int).contains_key(k) by {
            assert(keys.contains(k)); let j = choose|j: int| 0 <= j < keys.len() && keys[j] == k; assert(0 <= j < keys.len() && keys[j] == k);
        }
    }
}
/// ... and printing a parsed canonical entry reproduces its text byte for byte (canonical text = the printed form of some canonical entry)
pub proof fn theorem_render_parse(m: Map<SummaryVariable, VV>)
    requires canonical(m)
    ensures render(parse_entry(render(m))->Ok_0) == render(m)
{
    theorem_parse_render(m);
}
