// lib/std_os.rs -- OsStr / OsString (unix) as opaque types with an uninterpreted byte view (trusted base S-os)
#[verifier::external_type_specification]
#[verifier::external_body]
pub struct ExOsString(OsString);
#[verifier::external_type_specification]
#[verifier::external_body]
pub struct ExOsStr(OsStr);

/// the bytes of an OsStr / OsString (unix: arbitrary bytes)
pub uninterp spec fn osb(s: &OsStr) -> Seq<u8>;
pub uninterp spec fn osbs(s: &OsString) -> Seq<u8>;

pub assume_specification [OsString::as_os_str] (s: &OsString) -> (r: &OsStr)
    ensures osb(r) == osbs(s);
pub assume_specification [OsStr::to_os_string] (s: &OsStr) -> (r: OsString)
    ensures osbs(&r) == osb(s);
pub assume_specification [<OsString as Clone>::clone] (s: &OsString) -> (r: OsString)
    ensures osbs(&r) == osbs(s);
pub assume_specification [OsString::new] () -> (r: OsString)
    ensures osbs(&r) == Seq::<u8>::empty();

// shim: OsStr::from_bytes(bytes)   (std::os::unix::ffi::OsStrExt)
#[verifier::external_body]
fn shim_osstr_from_bytes<'a>(b: &'a [u8]) -> (r: &'a OsStr)
    ensures osb(r) == b@
{ OsStr::from_bytes(b) }
// shim: X.as_bytes() on &OsStr
#[verifier::external_body]
fn shim_osstr_as_bytes<'a>(s: &'a OsStr) -> (r: &'a [u8])
    ensures r@ == osb(s)
{ s.as_bytes() }
// shim: OsString::from(&OsStr)
#[verifier::external_body]
fn shim_osstring_from_osstr(s: &OsStr) -> (r: OsString)
    ensures osbs(&r) == osb(s)
{ OsString::from(s) }
// shim: OsString::from(String) -- only used for error payloads
#[verifier::external_body]
fn shim_osstring_from_string(s: String) -> (r: OsString)
    ensures osbs(&r) == encode_utf8(s@)
{ OsString::from(s) }
// shim: X.push(&OsString) / X.push("lit")
#[verifier::external_body]
fn shim_os_push(p: &mut OsString, x: &OsString)
    ensures osbs(final(p)) == osbs(old(p)) + osbs(x)
{ p.push(x) }
#[verifier::external_body]
fn shim_os_push_str(p: &mut OsString, x: &str)
    ensures osbs(final(p)) == osbs(old(p)) + x.spec_bytes()
{ p.push(x) }
// shim: X.to_string_lossy().ends_with('/')   (the lossy string ends in '/' exactly when the last byte is 0x2F)
#[verifier::external_body]
fn shim_os_ends_with_slash(p: &OsString) -> (r: bool)
    ensures r == (osbs(p).len() > 0 && osbs(p).last() == 0x2Fu8)
{ p.to_string_lossy().ends_with('/') }
// shim: X.to_os_string() on &OsString (through Deref<Target = OsStr>)
#[verifier::external_body]
fn shim_os_clone(s: &OsString) -> (r: OsString)
    ensures osbs(&r) == osbs(s)
{ s.to_os_string() }
// shim D6.string_from_utf8_os: String::from_utf8(os.as_bytes().to_vec())
#[verifier::external_body]
fn shim_string_from_utf8_os(x: &OsStr) -> (r: core::result::Result<String, FromUtf8Error>)
    ensures r is Ok <==> valid_utf8(osb(x)), r is Ok ==> r->Ok_0@ == decode_utf8(osb(x))
{ String::from_utf8(x.as_bytes().to_vec()) }
// shim D6.opt_os_to_str: Option<&OsStr>::and_then(OsStr::to_str)
#[verifier::external_body]
fn shim_opt_os_to_str<'a>(a: Option<&'a OsStr>) -> (r: Option<&'a str>)
    ensures (match a {
        Some(o) => if valid_utf8(osb(o)) { r is Some && r->Some_0.spec_bytes() == osb(o) } else { r is None },
        None => r is None })
{ a.and_then(OsStr::to_str) }
// ---------------- Path / PathBuf (opaque, byte view) ----------------
#[verifier::external_type_specification]
#[verifier::external_body]
pub struct ExPathBuf(std::path::PathBuf);
#[verifier::external_type_specification]
#[verifier::external_body]
pub struct ExPath(std::path::Path);
pub uninterp spec fn pbb(p: &std::path::PathBuf) -> Seq<u8>;
pub uninterp spec fn pab(p: &std::path::Path) -> Seq<u8>;
pub assume_specification [std::path::PathBuf::new] () -> (r: std::path::PathBuf)
    ensures pbb(&r) == Seq::<u8>::empty();
pub assume_specification [std::path::PathBuf::as_path] (p: &std::path::PathBuf) -> (r: &std::path::Path)
    ensures pab(r) == pbb(p);
pub assume_specification [<std::path::PathBuf as core::ops::Deref>::deref] (p: &std::path::PathBuf) -> (r: &std::path::Path)
    ensures pab(r) == pbb(p);
pub assume_specification [std::path::Path::to_path_buf] (p: &std::path::Path) -> (r: std::path::PathBuf)
    ensures pbb(&r) == pab(p);
// shim D6.path_push_osstr: pushing onto an EMPTY PathBuf makes it exactly the pushed path
#[verifier::external_body]
fn shim_pathbuf_push_bytes(p: &mut std::path::PathBuf, b: &[u8])
    requires pbb(old(p)).len() == 0
    ensures pbb(final(p)) == b@
{ p.push(OsStr::from_bytes(b)) }
// shim D6.osstring_from_vec_line
#[verifier::external_body]
fn shim_osstring_from_slice(b: &[u8]) -> (r: OsString)
    ensures osbs(&r) == b@
{ OsString::from_vec(b.to_vec()) }
/// the final component of a path (None for "", "/", "..", ...): std's Path::file_name, uninterpreted
pub uninterp spec fn fname(b: Seq<u8>) -> Option<Seq<u8>>;
#[verifier::external_body]
fn shim_path_file_name<'a>(p: &'a std::path::Path) -> (r: Option<&'a OsStr>)
    ensures (match r { Some(o) => fname(pab(p)) == Some(osb(o)), None => fname(pab(p)) is None })
{ p.file_name() }
/// String::from_utf8_lossy of the bytes (invalid sequences -> U+FFFD): uninterpreted
pub uninterp spec fn lossy(b: Seq<u8>) -> Seq<char>;
#[verifier::external_body]
fn shim_os_lossy(p: &OsStr) -> (r: String)
    ensures r@ == lossy(osb(p))
{ p.to_string_lossy().into_owned() }
