// lib/dewey_tok_spec.rs -- the tokeniser of C01's statement as a recursive spec function over
// the (ASCII-lower-cased) character sequence.  One clause per token class of the statement:
//   digit run -> its decimal value;  '.', '_' and "pl" -> 0;  "alpha"/"beta"/"rc"|"pre" -> -3/-2/-1;
//   "nb<digits>" -> sets the revision (0 when no digits);  [digit runs whose value exceeds i64::MAX - outside the
//   statement's 18-digit domain - saturate: run_value / nb_value in lib/std_str.rs]
//    other ASCII letter -> 0, letter value;
//   every other character ignored.  Letters and modifiers are case-insensitive: `vtok` lower-cases first.
pub struct Tok { pub v: Seq<int>, pub rev: int }

pub open spec fn L_nb() -> Seq<char> { seq!['n','b'] }
pub open spec fn L_alpha() -> Seq<char> { seq!['a','l','p','h','a'] }
pub open spec fn L_beta() -> Seq<char> { seq!['b','e','t','a'] }
pub open spec fn L_rc() -> Seq<char> { seq!['r','c'] }
pub open spec fn L_pre() -> Seq<char> { seq!['p','r','e'] }
pub open spec fn L_pl() -> Seq<char> { seq!['p','l'] }

/// value of a letter component.  Statement: the alphabet rank (a=1 .. z=26), case-insensitive.
//@ ifdev letter_value_is_ascii_code
pub open spec fn letter_value(c: char) -> int { c as int }
//@ else
pub open spec fn letter_value(c: char) -> int { (c as int) - ('a' as int) + 1 }
//@ endif

#[verifier::opaque]
pub open spec fn tok(cs: Seq<char>, acc: Seq<int>, rev: int) -> Tok
    decreases cs.len()
{
    if cs.len() == 0 { Tok { v: acc, rev } }
    else {
        let n = dpl(cs) as int;
        if n > 0 {
            if n <= cs.len() { tok(cs.skip(n), acc.push(run_value(cs.take(n))), rev) } else { Tok { v: acc, rev } }
        }
        else if cs[0] == '.' || cs[0] == '_' { tok(cs.skip(1), acc.push(0), rev) }
        else if L_nb().is_prefix_of(cs) {
            let m = dpl(cs.skip(2)) as int;
            if 2 + m <= cs.len() {
                tok(cs.skip(2 + m), acc, nb_value(cs.subrange(2, 2 + m)))
            } else { Tok { v: acc, rev } }
        }
        else if L_alpha().is_prefix_of(cs) { tok(cs.skip(5), acc.push(-3), rev) }
        else if L_beta().is_prefix_of(cs) { tok(cs.skip(4), acc.push(-2), rev) }
        else if L_rc().is_prefix_of(cs) { tok(cs.skip(2), acc.push(-1), rev) }
        else if L_pre().is_prefix_of(cs) { tok(cs.skip(3), acc.push(-1), rev) }
        else if L_pl().is_prefix_of(cs) { tok(cs.skip(2), acc.push(0), rev) }
        else if is_lower_alpha(cs[0]) { tok(cs.skip(1), acc.push(0).push(letter_value(cs[0])), rev) }
        else { tok(cs.skip(1), acc, rev) }
    }
}
/// components and revision of a version string (statement of C01)
pub open spec fn vtok(s: Seq<char>) -> Tok { tok(lower_seq(s), seq![], 0) }

/// inside the statement's domain (digit runs of at most 18 digits) the saturating values are the plain decimal values
pub proof fn lemma_values_in_domain(ds: Seq<char>)
    requires all_digits(ds), ds.len() <= 18
    ensures run_value(ds) == dec_value(ds), nb_value(ds) == (if ds.len() >= 1 { dec_value(ds) } else { 0 })
{
    lemma_dec_value_bound(ds);
}

pub proof fn lemma_lits()
    ensures "nb"@ == L_nb(), "alpha"@ == L_alpha(), "beta"@ == L_beta(), "rc"@ == L_rc(), "pre"@ == L_pre(), "pl"@ == L_pl()
{
    reveal_strlit("nb"); reveal_strlit("alpha"); reveal_strlit("beta"); reveal_strlit("rc"); reveal_strlit("pre"); reveal_strlit("pl");
    assert("nb"@ =~= L_nb()); assert("alpha"@ =~= L_alpha()); assert("beta"@ =~= L_beta()); assert("rc"@ =~= L_rc());
    assert("pre"@ =~= L_pre()); assert("pl"@ =~= L_pl());
}

// ---- one unfolding lemma per token class (tok is opaque everywhere else) ----
pub proof fn lemma_tok_end(cs: Seq<char>, acc: Seq<int>, rev: int)
    requires cs.len() == 0
    ensures tok(cs, acc, rev) == (Tok { v: acc, rev })
{ reveal(tok); }

pub proof fn lemma_tok_digits(s: Seq<char>, k: int, acc: Seq<int>, rev: int)
    requires 0 <= k <= s.len(), dpl(s.skip(k)) > 0
    ensures ({ let n = dpl(s.skip(k)) as int;
        k + n <= s.len() && boff(s, k + n) == boff(s, k) + n && 0 <= boff(s, k + n) <= encode_utf8(s).len()
        && tok(s.skip(k), acc, rev) == tok(s.skip(k + n), acc.push(run_value(s.skip(k).take(n))), rev) })
{
    reveal(tok);
    let cs = s.skip(k);
    let n = dpl(cs) as int;
    lemma_dpl(cs);
    assert forall|i: int| k <= i < k + n implies (s[i] as u32) < 128 by { assert(s[i] == cs[i - k]); }
    lemma_ascii_step(s, k, n);
    lemma_boundary(s, k + n);
    assert(cs.skip(n) =~= s.skip(k + n));
}

pub proof fn lemma_tok_sep(s: Seq<char>, k: int, acc: Seq<int>, rev: int)
    requires 0 <= k < s.len(), dpl(s.skip(k)) == 0, s[k] == '.' || s[k] == '_'
    ensures boff(s, k + 1) == boff(s, k) + 1, 0 <= boff(s, k + 1) <= encode_utf8(s).len(),
        tok(s.skip(k), acc, rev) == tok(s.skip(k + 1), acc.push(0), rev)
{
    reveal(tok);
    let cs = s.skip(k);
    assert(seq![cs[0]].is_prefix_of(cs));
    lemma_fixed_step(s, k, 1, seq![cs[0]]);
}

pub proof fn lemma_tok_nb(s: Seq<char>, k: int, acc: Seq<int>, rev: int)
    requires 0 <= k < s.len(), dpl(s.skip(k)) == 0, s[k] != '.' && s[k] != '_', L_nb().is_prefix_of(s.skip(k))
    ensures ({ let m = dpl(s.skip(k + 2)) as int;
        k + 2 + m <= s.len()
        && boff(s, k + 2) == boff(s, k) + 2 && 0 <= boff(s, k + 2) <= encode_utf8(s).len()
        && boff(s, k + 2 + m) == boff(s, k) + 2 + m && 0 <= boff(s, k + 2 + m) <= encode_utf8(s).len()
        && tok(s.skip(k), acc, rev) == tok(s.skip(k + 2 + m), acc, nb_value(s.skip(k + 2).take(m))) })
{
    reveal(tok);
    let cs = s.skip(k);
    lemma_fixed_step(s, k, 2, L_nb());
    assert(cs.skip(2) =~= s.skip(k + 2));
    let t = s.skip(k + 2);
    let m = dpl(t) as int;
    lemma_dpl(t);
    assert forall|i: int| k + 2 <= i < k + 2 + m implies (s[i] as u32) < 128 by { assert(s[i] == t[i - (k + 2)]); }
    lemma_ascii_step(s, k + 2, m);
    lemma_boundary(s, k + 2 + m);
    assert(cs.skip(2 + m) =~= s.skip(k + 2 + m));
    assert(cs.subrange(2, 2 + m) =~= t.take(m));
}

pub open spec fn no_sep_nb(s: Seq<char>, k: int) -> bool {
    0 <= k < s.len() && dpl(s.skip(k)) == 0 && s[k] != '.' && s[k] != '_' && !L_nb().is_prefix_of(s.skip(k))
}
pub proof fn lemma_tok_alpha(s: Seq<char>, k: int, acc: Seq<int>, rev: int)
    requires no_sep_nb(s, k), L_alpha().is_prefix_of(s.skip(k))
    ensures boff(s, k + 5) == boff(s, k) + 5, 0 <= boff(s, k + 5) <= encode_utf8(s).len(), k + 5 <= s.len(),
        tok(s.skip(k), acc, rev) == tok(s.skip(k + 5), acc.push(-3), rev)
{ reveal(tok); lemma_fixed_step(s, k, 5, L_alpha()); }

pub proof fn lemma_tok_beta(s: Seq<char>, k: int, acc: Seq<int>, rev: int)
    requires no_sep_nb(s, k), !L_alpha().is_prefix_of(s.skip(k)), L_beta().is_prefix_of(s.skip(k))
    ensures boff(s, k + 4) == boff(s, k) + 4, 0 <= boff(s, k + 4) <= encode_utf8(s).len(), k + 4 <= s.len(),
        tok(s.skip(k), acc, rev) == tok(s.skip(k + 4), acc.push(-2), rev)
{ reveal(tok); lemma_fixed_step(s, k, 4, L_beta()); }

pub proof fn lemma_tok_rc(s: Seq<char>, k: int, acc: Seq<int>, rev: int)
    requires no_sep_nb(s, k), !L_alpha().is_prefix_of(s.skip(k)), !L_beta().is_prefix_of(s.skip(k)), L_rc().is_prefix_of(s.skip(k))
    ensures boff(s, k + 2) == boff(s, k) + 2, 0 <= boff(s, k + 2) <= encode_utf8(s).len(), k + 2 <= s.len(),
        tok(s.skip(k), acc, rev) == tok(s.skip(k + 2), acc.push(-1), rev)
{ reveal(tok); lemma_fixed_step(s, k, 2, L_rc()); }

pub proof fn lemma_tok_pre(s: Seq<char>, k: int, acc: Seq<int>, rev: int)
    requires no_sep_nb(s, k), !L_alpha().is_prefix_of(s.skip(k)), !L_beta().is_prefix_of(s.skip(k)), !L_rc().is_prefix_of(s.skip(k)),
        L_pre().is_prefix_of(s.skip(k))
    ensures boff(s, k + 3) == boff(s, k) + 3, 0 <= boff(s, k + 3) <= encode_utf8(s).len(), k + 3 <= s.len(),
        tok(s.skip(k), acc, rev) == tok(s.skip(k + 3), acc.push(-1), rev)
{ reveal(tok); lemma_fixed_step(s, k, 3, L_pre()); }

pub proof fn lemma_tok_pl(s: Seq<char>, k: int, acc: Seq<int>, rev: int)
    requires no_sep_nb(s, k), !L_alpha().is_prefix_of(s.skip(k)), !L_beta().is_prefix_of(s.skip(k)), !L_rc().is_prefix_of(s.skip(k)),
        !L_pre().is_prefix_of(s.skip(k)), L_pl().is_prefix_of(s.skip(k))
    ensures boff(s, k + 2) == boff(s, k) + 2, 0 <= boff(s, k + 2) <= encode_utf8(s).len(), k + 2 <= s.len(),
        tok(s.skip(k), acc, rev) == tok(s.skip(k + 2), acc.push(0), rev)
{ reveal(tok); lemma_fixed_step(s, k, 2, L_pl()); }

pub open spec fn no_modifier(s: Seq<char>, k: int) -> bool {
    no_sep_nb(s, k) && !L_alpha().is_prefix_of(s.skip(k)) && !L_beta().is_prefix_of(s.skip(k)) && !L_rc().is_prefix_of(s.skip(k))
    && !L_pre().is_prefix_of(s.skip(k)) && !L_pl().is_prefix_of(s.skip(k))
}
pub proof fn lemma_tok_letter(s: Seq<char>, k: int, acc: Seq<int>, rev: int)
    requires no_modifier(s, k), is_lower_alpha(s[k])
    ensures boff(s, k + 1) == boff(s, k) + 1, 0 <= boff(s, k + 1) <= encode_utf8(s).len(),
        tok(s.skip(k), acc, rev) == tok(s.skip(k + 1), acc.push(0).push(letter_value(s[k])), rev)
{
    reveal(tok);
    let cs = s.skip(k);
    assert(seq![cs[0]].is_prefix_of(cs));
    lemma_fixed_step(s, k, 1, seq![cs[0]]);
}
pub proof fn lemma_tok_other(s: Seq<char>, k: int, acc: Seq<int>, rev: int)
    requires no_modifier(s, k), !is_lower_alpha(s[k])
    ensures boff(s, k + 1) == boff(s, k) + encode_scalar(s[k] as u32).len(), 0 <= boff(s, k + 1) <= encode_utf8(s).len(),
        tok(s.skip(k), acc, rev) == tok(s.skip(k + 1), acc, rev)
{
    reveal(tok);
    let cs = s.skip(k);
    lemma_char_step(s, k);
    lemma_boundary(s, k + 1);
    assert(cs.skip(1) =~= s.skip(k + 1));
}
