// lib/dewey_views.rs -- abstract views of the dewey data types (closed: private fields)
pub open spec fn ints(v: Seq<i64>) -> Seq<int> { v.map_values(|x: i64| x as int) }
impl DeweyVersion {
    pub closed spec fn toks(&self) -> Tok { Tok { v: ints(self.version@), rev: self.pkgrevision as int } }
}
pub closed spec fn vcmp(l: &DeweyVersion, r: &DeweyVersion) -> int {
    cmp3(l.toks().v, l.toks().rev, r.toks().v, r.toks().rev)
}
pub proof fn lemma_vcmp(l: &DeweyVersion, r: &DeweyVersion) ensures vcmp(l, r) == tcmp(l.toks(), r.toks()) {}
impl DeweyMatch {
    pub closed spec fn bound(&self) -> Bound { Bound { op: self.op, t: self.version.toks() } }
}
impl Dewey {
    pub closed spec fn base(&self) -> Seq<char> { self.pkgname@ }
    pub closed spec fn bounds(&self) -> Seq<Bound> { Seq::new(self.matches@.len(), |i: int| self.matches@[i].bound()) }
}
