#!/usr/bin/env python3
"""gen.py <verif-root> <out-dir>: instantiate the scalar Kani crate with spec fns extracted from specs/lib."""
import os, re, shutil, sys
root, out = sys.argv[1], sys.argv[2]
want = ["is_upper", "is_lower_alpha", "is_alpha", "is_digit", "is_alnum", "lower", "aws"]
text = open(os.path.join(root, "specs/lib/std_str.rs")).read() + open(os.path.join(root, "specs/lib/std_bytes.rs")).read()
fns = []
for w in want:
    m = re.search(r"pub open spec fn %s\(([^)]*)\) -> (\w+) \{(.*)\}\s*$" % w, text, re.M)
    if not m:
        sys.exit("spec fn %s not found" % w)
    fns.append("fn %s(%s) -> %s {%s}" % (w, m.group(1), m.group(2), m.group(3)))
os.makedirs(os.path.join(out, "src"), exist_ok=True)
shutil.copy(os.path.join(root, "kani/scalar/Cargo.toml"), os.path.join(out, "Cargo.toml"))
t = open(os.path.join(root, "kani/scalar/src/harness.rs.tmpl")).read().replace("//@SPECFNS@", "\n".join(fns))
open(os.path.join(out, "src/lib.rs"), "w").write(t)
print("\n".join(fns))
