//! Reference implementations written from the property statements (properties.jsonl),
//! independent of /repo's code.  Used only to FIND and REPLAY concrete failing inputs;
//! the deciding step of every check is the Verus proof, not these oracles.

/// C01 tokeniser. `letter_ascii`: the recorded known finding (letter value = ASCII code of the
/// lower-cased letter instead of its alphabet rank) - enabled during searches so that only
/// *other* disagreements are reported.
pub fn tokens(v: &str, letter_ascii: bool) -> (Vec<i128>, i128) {
    let cs: Vec<char> = v.chars().map(|c| c.to_ascii_lowercase()).collect();
    let mut out = vec![];
    let mut rev: i128 = 0;
    let mut i = 0;
    let starts = |i: usize, lit: &str| -> bool {
        let l: Vec<char> = lit.chars().collect();
        i + l.len() <= cs.len() && cs[i..i + l.len()] == l[..]
    };
    while i < cs.len() {
        let c = cs[i];
        if c.is_ascii_digit() {
            let mut n: i128 = 0;
            while i < cs.len() && cs[i].is_ascii_digit() {
                n = n.saturating_mul(10).saturating_add(cs[i] as i128 - '0' as i128);
                i += 1;
            }
            out.push(n.min(i64::MAX as i128));
        } else if c == '.' || c == '_' {
            out.push(0);
            i += 1;
        } else if starts(i, "nb") {
            i += 2;
            let mut n: i128 = 0;
            let mut any = false;
            while i < cs.len() && cs[i].is_ascii_digit() {
                n = n.saturating_mul(10).saturating_add(cs[i] as i128 - '0' as i128);
                i += 1;
                any = true;
            }
            rev = if any && n <= i64::MAX as i128 { n } else { 0 };
        } else if starts(i, "alpha") {
            out.push(-3);
            i += 5;
        } else if starts(i, "beta") {
            out.push(-2);
            i += 4;
        } else if starts(i, "rc") {
            out.push(-1);
            i += 2;
        } else if starts(i, "pre") {
            out.push(-1);
            i += 3;
        } else if starts(i, "pl") {
            out.push(0);
            i += 2;
        } else if c.is_ascii_lowercase() {
            out.push(0);
            out.push(if letter_ascii { c as i128 } else { c as i128 - 'a' as i128 + 1 });
            i += 1;
        } else {
            i += 1;
        }
    }
    (out, rev)
}

pub fn cmp3(a: &(Vec<i128>, i128), b: &(Vec<i128>, i128)) -> i32 {
    let n = a.0.len().max(b.0.len());
    for i in 0..n {
        let x = *a.0.get(i).unwrap_or(&0);
        let y = *b.0.get(i).unwrap_or(&0);
        if x != y {
            return if x < y { -1 } else { 1 };
        }
    }
    if a.1 < b.1 {
        -1
    } else if a.1 > b.1 {
        1
    } else {
        0
    }
}

#[derive(Clone, Copy, Debug, PartialEq)]
pub enum Op {
    GT,
    GE,
    LT,
    LE,
}
pub fn holds(op: Op, c: i32) -> bool {
    match op {
        Op::GT => c > 0,
        Op::GE => c >= 0,
        Op::LT => c < 0,
        Op::LE => c <= 0,
    }
}

/// C02: parse 'BASE op V' / 'BASE op1 V1 op2 V2'
pub fn dewey_parse(p: &str) -> Option<(String, Vec<(Op, String)>)> {
    let cs: Vec<char> = p.chars().collect();
    let mut ops: Vec<(usize, usize, Op)> = vec![];
    for (k, &c) in cs.iter().enumerate() {
        if c == '>' || c == '<' {
            let eq = k + 1 < cs.len() && cs[k + 1] == '=';
            let op = match (c, eq) {
                ('>', true) => Op::GE,
                ('>', false) => Op::GT,
                ('<', true) => Op::LE,
                _ => Op::LT,
            };
            ops.push((k, if eq { k + 2 } else { k + 1 }, op));
        }
    }
    let ok = ops.len() == 1
        || (ops.len() == 2 && matches!(ops[0].2, Op::GT | Op::GE) && matches!(ops[1].2, Op::LT | Op::LE));
    if !ok {
        return None;
    }
    let base: String = cs[..ops[0].0].iter().collect();
    let mut bounds = vec![];
    for i in 0..ops.len() {
        let end = if i + 1 < ops.len() { ops[i + 1].0 } else { cs.len() };
        bounds.push((ops[i].2, cs[ops[i].1..end].iter().collect::<String>()));
    }
    Some((base, bounds))
}
pub fn dewey_match(p: &str, name: &str, letter_ascii: bool) -> Option<bool> {
    let (base, bounds) = dewey_parse(p)?;
    let Some(j) = name.rfind('-') else { return Some(false) };
    if name[..j] != base {
        return Some(false);
    }
    let v = tokens(&name[j + 1..], letter_ascii);
    Some(bounds.iter().all(|(op, b)| holds(*op, cmp3(&v, &tokens(b, letter_ascii)))))
}

/// C04: properly nested braces
pub fn balanced(p: &str) -> bool {
    let mut d = 0i64;
    for c in p.chars() {
        if c == '{' {
            d += 1
        } else if c == '}' {
            d -= 1;
            if d < 0 {
                return false;
            }
        }
    }
    d == 0
}
/// C04: csh-style expansion, left to right: first '{', its depth-matching '}', alternatives split on
/// commas at the group's own depth, substitute, recurse.
pub fn expand(p: &str) -> Vec<String> {
    let cs: Vec<char> = p.chars().collect();
    let Some(i) = cs.iter().position(|&c| c == '{') else { return vec![p.to_string()] };
    let mut d = 0;
    let mut close = None;
    let mut commas = vec![];
    for k in i..cs.len() {
        match cs[k] {
            '{' => d += 1,
            '}' => {
                d -= 1;
                if d == 0 {
                    close = Some(k);
                    break;
                }
            }
            ',' if d == 1 => commas.push(k),
            _ => {}
        }
    }
    let Some(j) = close else { return vec![] };
    let mut alts = vec![];
    let mut s = i + 1;
    for &c in commas.iter() {
        alts.push(cs[s..c].iter().collect::<String>());
        s = c + 1;
    }
    alts.push(cs[s..j].iter().collect::<String>());
    let pre: String = cs[..i].iter().collect();
    let post: String = cs[j + 1..].iter().collect();
    let mut out = vec![];
    for a in alts {
        out.extend(expand(&format!("{}{}{}", pre, a, post)));
    }
    out
}

/// C04: the expansion as the proof states it (specs/lib/brace_expansion.rs, `dhas`): text without '{' stands for itself; A{I}C (first
/// '{', its depth-matching '}') stands for A + x + y, x an expansion of one alternative of I (split at the commas of I's own
/// depth), y an expansion of C.  Transcribed only to cross-check the formal definition against `expand` (bounded).
pub fn expand_d(p: &str) -> Vec<String> {
    let cs: Vec<char> = p.chars().collect();
    let Some(i) = cs.iter().position(|&c| c == '{') else { return vec![p.to_string()] };
    // seek(s, i + 1, 1, close)
    let mut d = 1i64;
    let mut close = None;
    for k in i + 1..cs.len() {
        if cs[k] == '}' && d == 1 {
            close = Some(k);
            break;
        }
        d += match cs[k] { '{' => 1, '}' => -1, _ => 0 };
    }
    let Some(j) = close else { return vec![] };
    // split_top(interior): seek(.., 0, 0, comma)
    let inner: Vec<char> = cs[i + 1..j].to_vec();
    let mut alts: Vec<String> = vec![];
    let mut start = 0;
    loop {
        let mut d = 0i64;
        let mut comma = None;
        for k in start..inner.len() {
            if d < 0 {
                break;
            }
            if inner[k] == ',' && d == 0 {
                comma = Some(k);
                break;
            }
            d += match inner[k] { '{' => 1, '}' => -1, _ => 0 };
        }
        match comma {
            Some(c) => {
                alts.push(inner[start..c].iter().collect());
                start = c + 1;
            }
            None => {
                alts.push(inner[start..].iter().collect());
                break;
            }
        }
    }
    let pre: String = cs[..i].iter().collect();
    let post: String = cs[j + 1..].iter().collect();
    let ys = expand_d(&post);
    let mut out = vec![];
    for a in alts {
        for x in expand_d(&a) {
            for y in ys.iter() {
                out.push(format!("{}{}{}", pre, x, y));
            }
        }
    }
    out
}

/// C05: shell glob, whole-name, case-sensitive: '*' any run, '?' one char, [set] / [!set] with ranges
pub fn glob_match(p: &[char], n: &[char]) -> bool {
    if p.is_empty() {
        return n.is_empty();
    }
    match p[0] {
        '*' => (0..=n.len()).any(|k| glob_match(&p[1..], &n[k..])),
        '?' => !n.is_empty() && glob_match(&p[1..], &n[1..]),
        '[' => {
            // find closing ']' (a ']' directly after '[' or '[!' is a literal member)
            let mut k = 1;
            let neg = k < p.len() && p[k] == '!';
            if neg {
                k += 1;
            }
            let start = k;
            if k < p.len() && p[k] == ']' {
                k += 1;
            }
            while k < p.len() && p[k] != ']' {
                k += 1;
            }
            if k >= p.len() || n.is_empty() {
                return false;
            }
            let set = &p[start..k];
            let c = n[0];
            let mut hit = false;
            let mut q = 0;
            while q < set.len() {
                if q + 2 < set.len() && set[q + 1] == '-' {
                    if set[q] <= c && c <= set[q + 2] {
                        hit = true;
                    }
                    q += 3;
                } else {
                    if set[q] == c {
                        hit = true;
                    }
                    q += 1;
                }
            }
            hit != neg && glob_match(&p[k + 1..], &n[1..])
        }
        c => !n.is_empty() && n[0] == c && glob_match(&p[1..], &n[1..]),
    }
}

pub fn has_any(p: &str, set: &str) -> bool {
    p.chars().any(|c| set.contains(c))
}

/// whole-pattern statement semantics; None = does not compile (only decided for the kinds we model)
pub fn pattern_match(p: &str, name: &str, letter_ascii: bool) -> Option<bool> {
    if has_any(p, "{}") {
        if !balanced(p) {
            return None;
        }
        let mut any = false;
        for e in expand(p) {
            if let Some(true) = pattern_match(&e, name, letter_ascii) {
                any = true;
            }
        }
        Some(any)
    } else if has_any(p, "<>") {
        dewey_match(p, name, letter_ascii)
    } else if has_any(p, "*?[]") {
        let pc: Vec<char> = p.chars().collect();
        let nc: Vec<char> = name.chars().collect();
        Some(glob_match(&pc, &nc))
    } else {
        Some(p == name)
    }
}

/// C18
pub fn split_name(n: &str) -> (String, String) {
    match n.rfind('-') {
        Some(j) => (n[..j].to_string(), n[j + 1..].to_string()),
        None => (n.to_string(), String::new()),
    }
}

/// C06
pub fn best<'a>(a: &'a str, b: &'a str, letter_ascii: bool) -> &'a str {
    let va = tokens(&split_name(a).1, letter_ascii);
    let vb = tokens(&split_name(b).1, letter_ascii);
    let c = cmp3(&va, &vb);
    if c > 0 {
        a
    } else if c < 0 {
        b
    } else if a.as_bytes() < b.as_bytes() {
        a
    } else {
        b
    }
}

// ---------------- PLIST (C14, C15) ----------------
use pkgsrc::plist::{PlistEntry, PlistOption};
use std::ffi::OsString;
use std::os::unix::ffi::OsStringExt;

pub fn is_ws(b: u8) -> bool {
    b == 32 || (9..=13).contains(&b)
}
fn os(b: &[u8]) -> OsString {
    OsString::from_vec(b.to_vec())
}
/// C14: what parsing one line alone gives (None = error)
pub fn plist_entry(line: &[u8]) -> Option<PlistEntry> {
    let sp = line.iter().position(|&c| c == b' ');
    let cmd: &[u8] = match sp {
        Some(i) => &line[..i],
        None => line,
    };
    let arg: Option<&[u8]> = match sp {
        Some(i) if i > 0 && i + 1 < line.len() => {
            let mut k = i;
            while k < line.len() && is_ws(line[k]) {
                k += 1;
            }
            if k == line.len() {
                None
            } else {
                Some(&line[k..])
            }
        }
        _ => None,
    };
    if cmd.first() != Some(&b'@') {
        return Some(PlistEntry::File(os(line)));
    }
    let utf8 = |a: &[u8]| String::from_utf8(a.to_vec()).ok();
    match cmd {
        b"@cwd" | b"@src" | b"@cd" => arg.map(|a| PlistEntry::Cwd(os(a))),
        b"@exec" => arg.map(|a| PlistEntry::Exec(os(a))),
        b"@unexec" => arg.map(|a| PlistEntry::UnExec(os(a))),
        b"@option" => match arg {
            Some(b"preserve") => Some(PlistEntry::PkgOpt(PlistOption::Preserve)),
            _ => None,
        },
        b"@mode" => match arg {
            None => Some(PlistEntry::Mode(None)),
            Some(a) => utf8(a).map(|s| PlistEntry::Mode(Some(s))),
        },
        b"@owner" => match arg {
            None => Some(PlistEntry::Owner(None)),
            Some(a) => utf8(a).map(|s| PlistEntry::Owner(Some(s))),
        },
        b"@group" => match arg {
            None => Some(PlistEntry::Group(None)),
            Some(a) => utf8(a).map(|s| PlistEntry::Group(Some(s))),
        },
        b"@comment" => Some(PlistEntry::Comment(arg.map(os))),
        b"@ignore" => match arg {
            None => Some(PlistEntry::Ignore),
            Some(_) => None,
        },
        b"@name" => arg.and_then(utf8).map(PlistEntry::Name),
        b"@pkgdep" => arg.and_then(utf8).map(PlistEntry::PkgDep),
        b"@blddep" => arg.and_then(utf8).map(PlistEntry::BldDep),
        b"@pkgcfl" => arg.and_then(utf8).map(PlistEntry::PkgCfl),
        b"@pkgdir" => arg.map(|a| PlistEntry::PkgDir(os(a))),
        b"@dirrm" => arg.map(|a| PlistEntry::DirRm(os(a))),
        b"@display" => arg.map(|a| PlistEntry::Display(os(a))),
        _ => None,
    }
}
/// C14: one entry per line containing a non-whitespace byte (None = some line is an error)
pub fn plist_entries(text: &[u8]) -> Option<Vec<PlistEntry>> {
    let mut out = vec![];
    for line in text.split(|&c| c == b'\n') {
        if line.iter().any(|&c| !is_ws(c)) {
            out.push(plist_entry(line)?);
        }
    }
    Some(out)
}
/// C15: kept files (index list)
pub fn kept_files(es: &[PlistEntry]) -> Vec<usize> {
    let mut ignore = false;
    let mut out = vec![];
    for (i, e) in es.iter().enumerate() {
        match e {
            PlistEntry::Ignore => ignore = true,
            PlistEntry::File(_) => {
                if !ignore {
                    out.push(i);
                }
                ignore = false;
            }
            _ => {}
        }
    }
    out
}

// ---------------- pkg_summary (C07, C08, C09) ----------------
pub const SUM_VARS: &[(&str, u8)] = &[("BUILD_DATE", 0), ("CATEGORIES", 0), ("COMMENT", 0), ("CONFLICTS", 2), ("DEPENDS", 2), ("DESCRIPTION", 2),
    ("FILE_CKSUM", 0), ("FILE_NAME", 0), ("FILE_SIZE", 1), ("HOMEPAGE", 0), ("LICENSE", 0), ("MACHINE_ARCH", 0), ("OPSYS", 0), ("OS_VERSION", 0),
    ("PKG_OPTIONS", 0), ("PKGNAME", 0), ("PKGPATH", 0), ("PKGTOOLS_VERSION", 0), ("PREV_PKGPATH", 0), ("PROVIDES", 2), ("REQUIRES", 2), ("SIZE_PKG", 1), ("SUPERSEDES", 2)];
pub const SUM_REQUIRED: &[&str] = &["BUILD_DATE", "CATEGORIES", "COMMENT", "DESCRIPTION", "MACHINE_ARCH", "OPSYS", "OS_VERSION", "PKGNAME", "PKGPATH", "PKGTOOLS_VERSION", "SIZE_PKG"];
#[derive(Debug, PartialEq, Clone)]
pub enum SErr { ParseLine, ParseVariable, ParseInt, Incomplete(String) }
/// C08: parse one entry text -> ordered map name -> lines (canonical order = SUM_VARS order)
pub fn summary_parse(text: &str) -> Result<Vec<(String, Vec<String>)>, SErr> {
    let mut m: std::collections::BTreeMap<usize, Vec<String>> = std::collections::BTreeMap::new();
    for line in text.lines() {
        let Some((k, v)) = line.split_once('=') else { return Err(SErr::ParseLine) };
        let Some(idx) = SUM_VARS.iter().position(|(n, _)| *n == k) else { return Err(SErr::ParseVariable) };
        match SUM_VARS[idx].1 {
            0 => { m.insert(idx, vec![v.to_string()]); }
            1 => { let n: i64 = v.parse().map_err(|_| SErr::ParseInt)?; m.insert(idx, vec![n.to_string()]); }
            _ => { m.entry(idx).or_default().push(v.to_string()); }
        }
    }
    for r in SUM_REQUIRED {
        let idx = SUM_VARS.iter().position(|(n, _)| n == r).unwrap();
        if !m.contains_key(&idx) { return Err(SErr::Incomplete(r.to_string())); }
    }
    Ok(m.into_iter().map(|(i, v)| (SUM_VARS[i].0.to_string(), v)).collect())
}
/// C07: canonical text of an entry: one VAR=value line per value, variables in pkg_summary order
pub fn summary_render(e: &[(String, Vec<String>)]) -> String {
    let mut s = String::new();
    for (k, vs) in e { for v in vs { s.push_str(k); s.push('='); s.push_str(v); s.push('\n'); } }
    s
}

// ---------------- distinfo (C10, C11, C12) ----------------
use std::path::PathBuf;
#[derive(Debug, Clone, PartialEq)]
pub struct DEntry { pub name: Vec<u8>, pub size: Option<u64>, pub sums: Vec<(String, String)>, pub patch: bool }
#[derive(Debug, Clone, PartialEq, Default)]
pub struct DInfo { pub rcsid: Option<Vec<u8>>, pub dist: Vec<DEntry>, pub patch: Vec<DEntry> }
pub const DIGESTS: &[&str] = &["BLAKE2s", "MD5", "RMD160", "SHA1", "SHA256", "SHA512"];
pub fn is_patch_name(full: &[u8]) -> bool {
    use std::os::unix::ffi::OsStrExt;
    let p = PathBuf::from(std::ffi::OsStr::from_bytes(full));
    let Some(f) = p.file_name() else { return false };
    let t = f.to_string_lossy();
    if t.starts_with("patch-local-") || t.ends_with(".orig") || t.ends_with(".rej") || t.ends_with('~') { return false; }
    let emul = t.starts_with("emul-") && t["emul-".len()..].contains("-patch-");
    (t.starts_with("patch-") || emul) && !t.contains(".tar.")
}
fn same_path(a: &[u8], b: &[u8]) -> bool {
    use std::os::unix::ffi::OsStrExt;
    PathBuf::from(std::ffi::OsStr::from_bytes(a)) == PathBuf::from(std::ffi::OsStr::from_bytes(b))
}
/// C11: parse arbitrary distinfo text
pub fn distinfo_parse(text: &[u8]) -> DInfo {
    let mut d = DInfo::default();
    for raw in text.split(|&c| c == b'\n') {
        let mut s = 0;
        while s < raw.len() && is_ws(raw[s]) { s += 1; }
        let line = &raw[s..];
        if line.is_empty() || line[0] == b'#' { continue; }
        if line.starts_with(b"$NetBSD: ") { d.rcsid = Some(line.to_vec()); continue; }
        let f: Vec<&[u8]> = line.split(|&c| is_ws(c)).filter(|x| !x.is_empty()).collect();
        if f.len() < 4 { continue; }
        let (Ok(action), Ok(value)) = (std::str::from_utf8(f[0]), std::str::from_utf8(f[3])) else { continue };
        if !(f[1][0] == b'(' && f[1][f[1].len() - 1] == b')' && f[1].len() >= 2) { continue; }
        if f[2] != b"=" { continue; }
        let name = f[1][1..f[1].len() - 1].to_vec();
        let patch = is_patch_name(&name);
        let list = if patch { &mut d.patch } else { &mut d.dist };
        if action == "Size" {
            let Ok(n) = value.parse::<u64>() else { continue };
            match list.iter_mut().find(|e| same_path(&e.name, &name)) {
                Some(e) => e.size = Some(n),
                None => list.push(DEntry { name, size: Some(n), sums: vec![], patch }),
            }
        } else {
            let Some(canon) = DIGESTS.iter().find(|x| x.to_lowercase() == action.to_lowercase()) else { continue };
            match list.iter_mut().find(|e| same_path(&e.name, &name)) {
                Some(e) => e.sums.push((canon.to_string(), value.to_string())),
                None => list.push(DEntry { name, size: None, sums: vec![(canon.to_string(), value.to_string())], patch }),
            }
        }
    }
    d
}
/// C10: canonical layout
pub fn distinfo_print(d: &DInfo) -> Vec<u8> {
    let mut o = d.rcsid.clone().unwrap_or_else(|| b"$NetBSD$".to_vec());
    o.extend_from_slice(b"\n\n");
    for (list, with_size) in [(&d.dist, true), (&d.patch, false)] {
        for e in list {
            for (a, h) in &e.sums { o.extend_from_slice(a.as_bytes()); o.extend_from_slice(b" ("); o.extend_from_slice(&e.name); o.extend_from_slice(b") = "); o.extend_from_slice(h.as_bytes()); o.push(b'\n'); }
            if let (true, Some(n)) = (with_size, e.size) { o.extend_from_slice(b"Size ("); o.extend_from_slice(&e.name); o.extend_from_slice(format!(") = {} bytes\n", n).as_bytes()); }
        }
    }
    o
}
