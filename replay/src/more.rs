// Searchers and oracles for C16 (pbulk-index), C17 (no panic / no hang), C19 (PkgPath, Depend), C20 (PkgDB, metadata).
// The oracles are written from the property statements, not from the code.
use crate::{hex, witness, Rng};
use pkgsrc::{Depend, Dewey, Metadata, MetadataEntry, Pattern, PkgName, PkgPath, ScanIndex};
use std::io::{BufRead, Read};
use std::path::{Path, PathBuf};
use std::str::FromStr;

// ---------------------------------------------------------------- C19
/// statement: component-wise (repeated and trailing slashes and non-leading '.' segments ignored) the input is
/// 'category/package' or '../../category/package' with ordinary names
pub fn pkgpath_oracle(s: &str) -> Option<(String, String)> {
    if s.starts_with('/') {
        return None;
    }
    let mut segs: Vec<&str> = vec![];
    for (i, seg) in s.split('/').enumerate() {
        if seg.is_empty() {
            continue;
        }
        if seg == "." && i > 0 {
            continue;
        }
        segs.push(seg);
    }
    let ordinary = |x: &str| x != "." && x != "..";
    let (c, p) = match segs.len() {
        2 if ordinary(segs[0]) && ordinary(segs[1]) => (segs[0], segs[1]),
        4 if segs[0] == ".." && segs[1] == ".." && ordinary(segs[2]) && ordinary(segs[3]) => (segs[2], segs[3]),
        _ => return None,
    };
    Some((format!("{}/{}", c, p), format!("../../{}/{}", c, p)))
}
pub fn real_pkgpath(s: &str) -> String {
    match PkgPath::new(s) {
        Err(_) => "invalid".into(),
        Ok(p) => {
            let short = p.as_path().to_string_lossy().into_owned();
            let full = p.as_full_path().to_string_lossy().into_owned();
            // re-parsing either accessor gives an equal value; FromStr agrees with new
            let r1 = PkgPath::new(&short).ok() == Some(p.clone());
            let r2 = PkgPath::new(&full).ok() == Some(p.clone());
            let r3 = PkgPath::from_str(s).ok() == Some(p.clone());
            let comps = |x: &Path| x.components().map(|c| c.as_os_str().to_string_lossy().into_owned()).collect::<Vec<_>>().join("/");
            format!("short={} full={} reparse={},{} fromstr={}", comps(Path::new(&short)), comps(Path::new(&full)), r1, r2, r3)
        }
    }
}
pub fn expect_pkgpath(s: &str) -> String {
    match pkgpath_oracle(s) {
        None => "invalid".into(),
        Some((a, b)) => format!("short={} full={} reparse=true,true fromstr=true", a, b),
    }
}
pub fn real_depend(s: &str) -> String {
    match Depend::new(s) {
        Err(_) => "invalid".into(),
        Ok(d) => {
            let halves: Vec<&str> = s.split(':').collect();
            let same = halves.len() == 2
                && Pattern::new(halves[0]).ok().as_ref() == Some(d.pattern())
                && PkgPath::new(halves[1]).ok().as_ref() == Some(d.pkgpath());
            format!("ok parts-equal={} fromstr={}", same, Depend::from_str(s).ok() == Some(d.clone()))
        }
    }
}
pub fn expect_depend(s: &str) -> String {
    let halves: Vec<&str> = s.split(':').collect();
    if halves.len() == 2 && Pattern::new(halves[0]).is_ok() && pkgpath_oracle(halves[1]).is_some() {
        "ok parts-equal=true fromstr=true".into()
    } else {
        "invalid".into()
    }
}
pub fn search_c19(r: &mut Rng, iters: usize) -> bool {
    let segs = ["..", ".", "cat", "pkg", "", "a", "..", "pkgtools", "x.y", "...", ".hidden", "é"];
    let check = |s: &str| -> bool {
        let (e, a) = (expect_pkgpath(s), real_pkgpath(s));
        if e != a {
            witness("pkgpath", &[("path", s.to_string())], &e, &a);
            return false;
        }
        true
    };
    // exhaustive over the dictionary up to 4 segments (12^4 * 2), random up to 6
    let n = segs.len();
    for len in 0..=4usize {
        let total = n.pow(len as u32);
        for k in 0..total {
            let mut parts = vec![];
            let mut kk = k;
            for _ in 0..len {
                parts.push(segs[kk % n]);
                kk /= n;
            }
            let s = parts.join("/");
            if !check(&s) || !check(&format!("/{}", s)) {
                return false;
            }
        }
    }
    for _ in 0..iters {
        let len = 5 + r.below(2);
        let parts: Vec<&str> = (0..len).map(|_| r.pick(&segs)).collect();
        let mut s = parts.join("/");
        if r.below(8) == 0 {
            s.insert(0, '/');
        }
        if !check(&s) {
            return false;
        }
    }
    let pats = ["foo-[0-9]*", "foo>=1", "{a,b}-1", "foo", "", "foo>=1<", "{a", "a[", "foo<1>2", "pkg>=1.0<2", "*"];
    let paths = ["cat/pkg", "../../cat/pkg", "cat", "cat/pkg/", "", "../cat/pkg", "cat/./pkg", "./cat/pkg", "/cat/pkg", "cat//pkg", "a/b/c", "cat/pkg ", " cat/pkg", "cat/pkg/ ", "cat/pkg\t", "../../cat/pkg\n", "cat /pkg"];
    let chk = |s: &str| -> bool {
        let (e, a) = (expect_depend(s), real_depend(s));
        if e != a {
            witness("depend", &[("depend", s.to_string())], &e, &a);
            return false;
        }
        true
    };
    for p in pats {
        if !chk(p) {
            return false;
        }
        for q in paths {
            for s in [format!("{}:{}", p, q), format!("{}:{}:", p, q), format!(":{}:{}", p, q), format!("{}::{}", p, q), format!("{}:{}:{}", p, q, q), format!("{}:{}::", p, q), format!("{}{}", p, q)] {
                if !chk(&s) {
                    return false;
                }
            }
        }
    }
    true
}

// ---------------------------------------------------------------- C20
pub const META_NAMES: [&str; 14] = ["+BUILD_INFO", "+BUILD_VERSION", "+COMMENT", "+CONTENTS", "+DEINSTALL", "+DESC", "+DISPLAY", "+INSTALL",
    "+INSTALLED_INFO", "+MTREE_DIRS", "+PRESERVE", "+REQUIRED_BY", "+SIZE_ALL", "+SIZE_PKG"];
pub fn meta_entries() -> Vec<MetadataEntry> {
    vec![MetadataEntry::BuildInfo, MetadataEntry::BuildVersion, MetadataEntry::Comment, MetadataEntry::Contents, MetadataEntry::DeInstall,
         MetadataEntry::Desc, MetadataEntry::Display, MetadataEntry::Install, MetadataEntry::InstalledInfo, MetadataEntry::MtreeDirs,
         MetadataEntry::Preserve, MetadataEntry::RequiredBy, MetadataEntry::SizeAll, MetadataEntry::SizePkg]
}
fn scratch(tag: &str) -> PathBuf {
    let base = std::env::var("VERIF_SCRATCH").map(PathBuf::from).unwrap_or_else(|_| std::env::temp_dir());
    let d = base.join(format!("verif-replay-{}-{}", std::process::id(), tag));
    let _ = std::fs::remove_dir_all(&d);
    std::fs::create_dir_all(&d).unwrap();
    d
}
/// spec: "name:mask:extra;..."  mask bits = +COMMENT,+CONTENTS,+DESC present (8 = a plain FILE instead of a directory);
/// extra = index of one more metadata file to create (content = "<name>/<file>\n")
pub fn build_tree(root: &Path, spec: &str) {
    for ent in spec.split(';').filter(|e| !e.is_empty()) {
        let f: Vec<&str> = ent.split(':').collect();
        let (name, mask, extra) = (f[0], f[1].parse::<u32>().unwrap_or(0), f[2].parse::<usize>().unwrap_or(99));
        let p = root.join(name);
        if mask & 8 != 0 {
            std::fs::write(&p, b"stray").unwrap();
            continue;
        }
        std::fs::create_dir_all(&p).unwrap();
        for (bit, fname) in [(1, "+COMMENT"), (2, "+CONTENTS"), (4, "+DESC")] {
            if mask & bit != 0 {
                // bit 16: the mandatory files exist but are empty (existence, not content, makes a package directory)
                std::fs::write(p.join(fname), if mask & 16 != 0 { String::new() } else { format!("{}/{}\n", name, fname) }).unwrap();
            }
        }
        if extra < 14 {
            std::fs::write(p.join(META_NAMES[extra]), format!("{}/{}\n", name, META_NAMES[extra])).unwrap();
        }
    }
}
pub fn expect_tree(spec: &str) -> String {
    let mut out = vec![];
    for ent in spec.split(';').filter(|e| !e.is_empty()) {
        let f: Vec<&str> = ent.split(':').collect();
        let (name, mask, extra) = (f[0], f[1].parse::<u32>().unwrap_or(0), f[2].parse::<usize>().unwrap_or(99));
        if mask & 8 != 0 {
            continue;
        }
        // the files present: the mandatory ones selected by the mask, plus the extra one (which may itself be a mandatory file)
        let has = |i: usize| -> bool {
            i == extra || match META_NAMES[i] { "+COMMENT" => mask & 1 != 0, "+CONTENTS" => mask & 2 != 0, "+DESC" => mask & 4 != 0, _ => false }
        };
        if !(has(2) && has(3) && has(5)) {
            continue;
        }
        let (b, v) = match name.rfind('-') {
            Some(i) => (&name[..i], &name[i + 1..]),
            None => (name, ""),
        };
        let mut files = vec![];
        for (i, m) in META_NAMES.iter().enumerate() {
            let _ = m;
            let empty = mask & 16 != 0 && i != extra && matches!(*m, "+COMMENT" | "+CONTENTS" | "+DESC");
            if has(i) && empty { files.push(String::new()); continue; }
            files.push(if has(i) { format!("{}/{}\n", name, m) } else { "<err>".to_string() });
        }
        out.push(format!("{}|{}|{}|{}", name, b, v, files.join(",")));
    }
    out.sort();
    format!("{:?}", out)
}
pub fn real_tree(root: &Path) -> String {
    let mut out = vec![];
    let db = match pkgsrc::pkgdb::PkgDB::open(root) {
        Ok(d) => d,
        Err(e) => return format!("open-error {}", e),
    };
    for p in db {
        match p {
            Err(e) => out.push(format!("iter-error {}", e.kind())),
            Ok(p) => {
                let files: Vec<String> = meta_entries().into_iter().map(|m| p.read_metadata(m).unwrap_or_else(|_| "<err>".into())).collect();
                out.push(format!("{}|{}|{}|{}", p.pkgname(), p.pkgbase(), p.pkgversion(), files.join(",")));
            }
        }
    }
    out.sort();
    format!("{:?}", out)
}
pub fn real_meta_table() -> String {
    let mut s = vec![];
    for e in meta_entries() {
        let n = e.to_filename().to_string();
        let back = MetadataEntry::from_filename(&n);
        s.push(format!("{}:{}", n, back == Some(e)));
    }
    for bad in ["", "+", "COMMENT", "+comment", "+SIZE", "+SIZE_ALL ", "+DESCR", "+REQUIRED-BY", "./+CONTENTS", "pkg-1.0/+DESC", "/+COMMENT", "+COMMENT/", " +DESC", "+DESC\n"] {
        s.push(format!("{:?}:{}", bad, MetadataEntry::from_filename(bad).is_none()));
    }
    s.join(" ")
}
pub fn expect_meta_table() -> String {
    let mut s = vec![];
    for n in META_NAMES {
        s.push(format!("{}:true", n));
    }
    for bad in ["", "+", "COMMENT", "+comment", "+SIZE", "+SIZE_ALL ", "+DESCR", "+REQUIRED-BY", "./+CONTENTS", "pkg-1.0/+DESC", "/+COMMENT", "+COMMENT/", " +DESC", "+DESC\n"] {
        s.push(format!("{:?}:true", bad));
    }
    s.join(" ")
}
/// is_valid() vs the three accessors on the same object, for texts made of blanks, newlines and content
pub fn valid_consistency(mask: u32) -> String {
    let mut m = Metadata::new();
    let vals = ["x", " \n", "", " ", "\n", " a ", "\t"];
    for (bit, e) in [(0, MetadataEntry::Comment), (1, MetadataEntry::Contents), (2, MetadataEntry::Desc)] {
        let k = ((mask >> (3 * bit)) & 7) as usize;
        if k < vals.len() {
            let _ = m.read_metadata(e, vals[k]);
        }
    }
    let by_accessors = !m.comment().is_empty() && !m.contents().is_empty() && !m.desc().is_empty();
    format!("is_valid={} accessors_nonempty={}", m.is_valid().is_ok(), by_accessors)
}
pub fn real_is_valid(mask: u32) -> bool {
    let mut m = Metadata::new();
    let vals = ["x", " \n", ""];
    for (bit, e) in [(0, MetadataEntry::Comment), (1, MetadataEntry::Contents), (2, MetadataEntry::Desc)] {
        let k = (mask >> (2 * bit)) & 3;
        if k < 3 {
            let _ = m.read_metadata(e, vals[k as usize]);
        }
    }
    m.is_valid().is_ok()
}
pub fn expect_is_valid(mask: u32) -> bool {
    (0..3).all(|bit| (mask >> (2 * bit)) & 3 == 0)
}

/// C20: what a fresh Metadata shows through its 14 getters after reading `text` as entry number `k`
pub fn meta_dump(k: usize, text: &str) -> String {
    let mut m = Metadata::new();
    let r = m.read_metadata(meta_entries().swap_remove(k), text);
    format!("ok={} bi={:?} bv={:?} comment={:?} contents={:?} deinstall={:?} desc={:?} display={:?} install={:?} ii={:?} mtree={:?} preserve={:?} reqby={:?} size_all={:?} size_pkg={:?}",
        r.is_ok(), m.build_info(), m.build_version(), m.comment(), m.contents(), m.deinstall(), m.desc(), m.display(), m.install(), m.installed_info(), m.mtree_dirs(),
        m.preserve(), m.required_by(), m.size_all(), m.size_pkg())
}
/// the statement's reading: the trimmed content - as text, as its lines, or as an integer - lands in the entry's own field only
pub fn meta_expect(k: usize, text: &str) -> String {
    let t = text.trim();
    let lines: Vec<String> = t.lines().map(|l| l.to_string()).collect();
    let n: Option<i64> = t.parse().ok();
    let l = |i: usize| -> Option<Vec<String>> { if i == k { Some(lines.clone()) } else { None } };
    let s = |i: usize| -> Option<String> { if i == k { Some(t.to_string()) } else { None } };
    let p = |i: usize| -> String { if i == k { t.to_string() } else { String::new() } };
    let z = |i: usize| -> Option<i64> { if i == k { n } else { None } };
    let ok = !(k >= 12 && n.is_none());
    format!("ok={} bi={:?} bv={:?} comment={:?} contents={:?} deinstall={:?} desc={:?} display={:?} install={:?} ii={:?} mtree={:?} preserve={:?} reqby={:?} size_all={:?} size_pkg={:?}",
        ok, l(0), l(1), p(2), p(3), s(4), p(5), s(6), s(7), l(8), l(9), l(10), l(11), z(12), z(13))
}
pub fn search_c20(r: &mut Rng, iters: usize) -> bool {
    let (e, a) = (expect_meta_table(), real_meta_table());
    if e != a {
        witness("meta_table", &[], &e, &a);
        return false;
    }
    for mask in 0..64u32 {
        let (e, a) = (expect_is_valid(mask), real_is_valid(mask));
        if e != a {
            witness("meta_is_valid", &[("mask", mask.to_string())], &e.to_string(), &a.to_string());
            return false;
        }
    }
    for mask in 0..512u32 {
        let a = valid_consistency(mask);
        let agree = a == "is_valid=true accessors_nonempty=true" || a == "is_valid=false accessors_nonempty=false";
        if !agree {
            witness("meta_valid_consistency", &[("mask", mask.to_string())], "is_valid() == all three texts non-empty", &a);
            return false;
        }
    }
    for k in 0..14 {
        for text in ["one line", "  first line\nsecond line\n", "42\n", " -7 ", "", "\n", "a\n\nb", "12x"] {
            let (e, a) = (meta_expect(k, text), meta_dump(k, text));
            if e != a {
                witness("meta_getters", &[("entry", k.to_string()), ("text", text.to_string())], &e, &a);
                return false;
            }
        }
    }
    let names = ["foo-1.0", "foo-bar-1.0", "foo-1.0nb2", "py39-foo-bar-2.1nb10", "nodash", "foo-1.0-rc1", "mutt-2.2.13-20240101", "a-b-c-d", "x11-links-2.8",
                 "-1.0", "foo-", "9base-6", "é-1", "p5-Foo-Bar-0.01", "libfoo-2-3",
                 "pkg-config-0.29.2nb1", "pkgdb.tools-1.0", "pkg_install-20240101", "pkgin-23.8.1", "pkg-vulnerabilities", "font-adobe-100dpi-1.0.3nb1", "libstdc++-6-compat-1.0",
                 ".hidden-1", "+COMMENT", "a b-1", "x-1.0~rc1", "UPPER-2", "pkgdb.byfile.db"];
    let rounds = (iters / 400).max(8);
    for round in 0..rounds {
        let mut spec = String::new();
        let mut used = vec![];
        for _ in 0..r.below(7) {
            let n = r.pick(&names);
            if used.contains(&n) {
                continue;
            }
            used.push(n);
            let mask = match r.below(7) { 0 => 8, 1 => r.below(7) as u32, 2 => 7 | 16, _ => 7 };
            spec.push_str(&format!("{}:{}:{};", n, mask, r.below(20)));
        }
        let root = scratch(&format!("c20-{}", round));
        build_tree(&root, &spec);
        let (e, a) = (expect_tree(&spec), real_tree(&root));
        let _ = std::fs::remove_dir_all(&root);
        if e != a {
            witness("pkgdb_tree", &[("spec", spec.clone())], &e, &a);
            return false;
        }
    }
    // second phase (own random stream): several packages of the SAME base in one database - each directory is yielded once, none is
    // taken for a duplicate of another version of the same package
    let mut r2 = Rng::new(0xC20_0000 + rounds as u64);
    let bases = ["foo", "foo-bar", "p5-Foo", "mutt-2.2.13", "x"];
    let vers = ["1.0", "1.0nb2", "1.0nb3", "2.0", "1.0.1", "1", "20240101", "1.0rc1"];
    for round in 0..rounds {
        let mut spec = String::new();
        let mut used: Vec<String> = vec![];
        let b = r2.pick(&bases);
        for _ in 0..2 + r2.below(4) {
            let n = format!("{}-{}", if r2.below(5) == 0 { r2.pick(&bases) } else { b }, r2.pick(&vers));
            if used.contains(&n) { continue; }
            used.push(n.clone());
            let mask = match r2.below(8) { 0 => 8, 1 => r2.below(7) as u32, _ => 7 };
            spec.push_str(&format!("{}:{}:{};", n, mask, r2.below(20)));
        }
        let root = scratch(&format!("c20b-{}", round));
        build_tree(&root, &spec);
        let (e, a) = (expect_tree(&spec), real_tree(&root));
        let _ = std::fs::remove_dir_all(&root);
        if e != a {
            witness("pkgdb_tree", &[("spec", spec.clone())], &e, &a);
            return false;
        }
    }
    true
}

// ---------------------------------------------------------------- C16
pub const SCAN_KEYS: [&str; 15] = ["PKGNAME", "PKG_LOCATION", "ALL_DEPENDS", "PKG_SKIP_REASON", "PKG_FAIL_REASON", "NO_BIN_ON_FTP", "RESTRICTED", "CATEGORIES",
    "MAINTAINER", "USE_DESTDIR", "BOOTSTRAP_PKG", "USERGROUP_PHASE", "SCAN_DEPENDS", "PBULK_WEIGHT", "MULTI_VERSION"];
/// a reader that fails with an I/O error once `fail_at` bytes have been delivered
pub struct FailingReader { pub data: Vec<u8>, pub pos: usize, pub fail_at: Option<usize> }
impl Read for FailingReader {
    fn read(&mut self, buf: &mut [u8]) -> std::io::Result<usize> {
        if let Some(f) = self.fail_at {
            if self.pos >= f {
                return Err(std::io::Error::new(std::io::ErrorKind::Other, "injected"));
            }
        }
        let lim = self.fail_at.map_or(self.data.len(), |f| f.min(self.data.len()));
        let n = buf.len().min(lim - self.pos).min(7);
        buf[..n].copy_from_slice(&self.data[self.pos..self.pos + n]);
        self.pos += n;
        Ok(n)
    }
}
pub fn scan_oracle(text: &[u8], fail_at: Option<usize>) -> Result<Vec<String>, String> {
    // the reader reports an error: at fail_at (if the data is longer than that), or at a line that is not UTF-8
    if let Some(f) = fail_at {
        if f <= text.len() {
            return Err("error".into());
        }
    }
    let s = match std::str::from_utf8(text) {
        Ok(s) => s,
        Err(_) => return Err("error".into()),
    };
    let mut blocks: Vec<Vec<&str>> = vec![];
    for line in s.split('\n') {
        let t = line.trim();
        if t.is_empty() {
            continue;
        }
        if t.starts_with("PKGNAME=") || blocks.is_empty() {
            blocks.push(vec![]);
        }
        blocks.last_mut().unwrap().push(t);
    }
    let mut out = vec![];
    for b in blocks {
        let mut kv: std::collections::BTreeMap<&str, &str> = Default::default();
        for l in b {
            if let Some(i) = l.find('=') {
                kv.insert(l[..i].trim(), l[i + 1..].trim());
            }
        }
        let name = match kv.get("PKGNAME") {
            Some(n) => *n,
            None => return Err("error".into()),
        };
        let mut rec = format!("PKGNAME={:?}", name);
        for k in &SCAN_KEYS[1..] {
            let v = kv.get(k).copied();
            match *k {
                "ALL_DEPENDS" => {
                    let items: Vec<&str> = v.map_or(vec![], |v| v.split_whitespace().collect());
                    for it in &items {
                        if Depend::new(it).is_err() {
                            return Err("error".into());
                        }
                    }
                    // rendered as pattern ':' short package path (the value Depend holds for either spelling of the path)
                    let shown: Vec<String> = items.iter().map(|it| { let (a, b) = it.split_once(':').unwrap(); format!("{}:{}", a, PkgPath::new(b).unwrap().as_path().to_string_lossy()) }).collect();
                    rec.push_str(&format!(" {}={:?}", k, shown));
                }
                "SCAN_DEPENDS" | "MULTI_VERSION" => {
                    let items: Vec<&str> = v.map_or(vec![], |v| v.split_whitespace().collect());
                    rec.push_str(&format!(" {}={:?}", k, items));
                }
                "PKG_LOCATION" => {
                    if let Some(v) = v {
                        if PkgPath::new(v).is_err() {
                            return Err("error".into());
                        }
                    }
                    rec.push_str(&format!(" {}={:?}", k, v.map(|v| PkgPath::new(v).unwrap().as_path().to_string_lossy().into_owned())));
                }
                _ => rec.push_str(&format!(" {}={:?}", k, v)),
            }
        }
        out.push(rec);
    }
    Ok(out)
}
pub fn scan_real(text: &[u8], fail_at: Option<usize>) -> Result<Vec<String>, String> {
    let rd = std::io::BufReader::with_capacity(16, FailingReader { data: text.to_vec(), pos: 0, fail_at });
    match ScanIndex::from_reader(rd) {
        Err(_) => Err("error".into()),
        Ok(v) => Ok(v.iter().map(|x| {
            let deps: Vec<String> = x.all_depends.iter().map(|d| format!("{}", d_text(d))).collect();
            let o = |s: &Option<String>| format!("{:?}", s.as_deref());
            format!("PKGNAME={:?} PKG_LOCATION={:?} ALL_DEPENDS={:?} PKG_SKIP_REASON={} PKG_FAIL_REASON={} NO_BIN_ON_FTP={} RESTRICTED={} CATEGORIES={} MAINTAINER={} USE_DESTDIR={} BOOTSTRAP_PKG={} USERGROUP_PHASE={} SCAN_DEPENDS={:?} PBULK_WEIGHT={} MULTI_VERSION={:?}",
                x.pkgname.pkgname(), x.pkg_location.as_ref().map(|p| p.as_path().to_string_lossy().into_owned()), deps,
                o(&x.pkg_skip_reason), o(&x.pkg_fail_reason), o(&x.no_bin_on_ftp), o(&x.restricted), o(&x.categories), o(&x.maintainer), o(&x.use_destdir),
                o(&x.bootstrap_pkg), o(&x.usergroup_phase), x.scan_depends.iter().map(|p| p.to_string_lossy().into_owned()).collect::<Vec<_>>(),
                o(&x.pbulk_weight), x.multi_version) + if x.depends.is_empty() { "" } else { " DEPENDS-NONEMPTY" }
        }).collect()),
    }
}
/// the text of a dependency as the record holds it: a Depend equal to parsing `pattern:path` is rendered by that text
fn d_text(d: &Depend) -> String {
    format!("{}:{}", pattern_text(d.pattern()), d.pkgpath().as_path().to_string_lossy())
}
fn pattern_text(p: &Pattern) -> String {
    p.pattern().to_string()
}
fn gen_scan(r: &mut Rng) -> Vec<u8> {
    let names = ["foo-1.0", "bar-2.0nb1", "py39-x-3", "a-b-1", "baz-0"];
    let deps = ["foo-[0-9]*:../../cat/foo", "bar>=1:../../x/bar", "{a,b}-[0-9]*:../../c/a", "bad", "x:y", "foo>=1:cat/pkg", "a:b:c", "z-[0-9]*:../../c/z/"];
    let vals = ["yes", "no", "a=b", "user-destdir", "  padded  ", "", "x y z", "100", "=", "é"];
    let mut t = String::new();
    let ind = |r: &mut Rng| ["", "", "", " ", "\t", "  "][r.below(6)];
    if r.below(6) == 0 {
        t.push_str(&format!("CATEGORIES={}\n", r.pick(&vals)));   // a block without PKGNAME before the first record
    }
    for _ in 0..r.below(5) {
        if r.below(12) != 0 {
            t.push_str(&format!("{}PKGNAME={}{}\n", ind(r), r.pick(&names), ind(r)));
        }
        for _ in 0..r.below(7) {
            let k = SCAN_KEYS[1 + r.below(14)];
            let v = match k {
                "ALL_DEPENDS" => (0..r.below(4)).map(|_| if r.below(9) == 0 { r.pick(&deps) } else { deps[r.below(3)] }).collect::<Vec<_>>().join(["  ", " ", "\t"][r.below(3)]),
                "PKG_LOCATION" => ["cat/pkg", "../../cat/pkg", "x/y", "x/y", "bad", "a/b/c", "", "  ", "/abs/p", "../../x", ".", "cat/pkg/", "x//y"][r.below(13)].to_string(),
                "SCAN_DEPENDS" | "MULTI_VERSION" => (0..r.below(4)).map(|_| ["/a/b.mk", "PHP=56", "X=1=2", "../mk", "a,b"][r.below(5)]).collect::<Vec<_>>().join([" ", " ", "  ", "\t", " \t "][r.below(5)]),
                _ => r.pick(&vals).to_string(),
            };
            t.push_str(&format!("{}{}{}={}{}\n", ind(r), k, ["", "", " "][r.below(3)], v, ind(r)));
            match r.below(12) {
                0 => t.push('\n'),
                1 => t.push_str("UNKNOWN_KEY=zzz\n"),
                2 => t.push_str("a line without equals\n"),
                5 => {
                    // a line without '=' whose text is a known key (must be ignored like any other such line)
                    t.push_str(SCAN_KEYS[r.below(15)]);
                    t.push_str(["\n", " \n", "\t\n"][r.below(3)]);
                }
                3 => t.push_str("   \n"),
                4 => t.push_str("\r\n"),
                _ => {}
            }
        }
    }
    let mut b = t.into_bytes();
    if r.below(25) == 0 && !b.is_empty() {
        let k = r.below(b.len());
        b[k] = 0xff;      // a line that is not UTF-8: BufRead::lines reports InvalidData
    }
    b
}
pub fn check_scan(text: &[u8], fail_at: Option<usize>) -> bool {
    let (e, a) = (scan_oracle(text, fail_at), scan_real(text, fail_at));
    if e != a {
        witness("scanindex", &[("hextext", hex(text)), ("failat", fail_at.map_or("none".to_string(), |f| f.to_string()))], &format!("{:?}", e), &format!("{:?}", a));
        return false;
    }
    true
}
pub fn search_c16(r: &mut Rng, iters: usize) -> bool {
    for fixed in ["PKGNAME=a-1\nCATEGORIES=x\n  PKGNAME=b-2\nMAINTAINER=m\n", "PKGNAME=a-1\n\n\nPKGNAME=b-2\n", "PKGNAME=a-1\nPKGNAME=b-1\n", "", "\n\n",
                  "PKGNAME=a-1\nCATEGORIES=x\nCATEGORIES=y\n", "CATEGORIES=y\nPKGNAME=a-1\n", "PKGNAME=a-1\nALL_DEPENDS=bad\n", "PKGNAME=a-1\nPKG_LOCATION=bad\n",
                  "PKGNAME=a-1\nPKG_LOCATION=\n", "PKGNAME=a-1\nPKG_LOCATION=cat/pkg\nPKG_LOCATION=\n", "PKGNAME=a-1\nSCAN_DEPENDS=\nMULTI_VERSION=\nALL_DEPENDS=\n",
                  "PKGNAME=a-1\nPKG_SKIP_REASON=\n", "PKGNAME=a-1\nMAINTAINER=m\nMAINTAINER\n", "PKGNAME=a-1\nSCAN_DEPENDS=x y\nSCAN_DEPENDS\nPKGNAME\n", "CATEGORIES=c\nPKGNAME\n", "PKGNAME=a-1\nPKG_SKIP_REASON=s\n", "PKGNAME=a-1\nMULTI_VERSION=A=1\tB=2  C=3\n"] {
        if !check_scan(fixed.as_bytes(), None) {
            return false;
        }
    }
    for _ in 0..iters / 4 {
        let t = gen_scan(r);
        let fail = if r.below(5) == 0 && !t.is_empty() { Some(r.below(t.len() + 1)) } else { None };
        if !check_scan(&t, fail) {
            return false;
        }
    }
    true
}

// ---------------------------------------------------------------- C17
pub const ENTRIES: [&str; 14] = ["pattern", "dewey", "pkgname", "pkgpath", "depend", "summary", "stream", "plist", "plist_entry", "distinfo", "scanindex",
    "digest", "metadata", "pkgdb"];
fn fields(input: &[u8]) -> Vec<String> {
    input.split(|b| *b == 0xfe).map(|f| String::from_utf8_lossy(f).into_owned()).collect()
}
/// run one public entry point on one input; returns a short description of the (normal) result
pub fn call_entry(entry: &str, input: &[u8]) -> String {
    let f = fields(input);
    let g = |i: usize| f.get(i).cloned().unwrap_or_default();
    match entry {
        "pattern" => match Pattern::new(&g(0)) {
            Ok(p) => format!("{} {:?}", p.matches(&g(1)), p.best_match(&g(1), &g(2))),
            Err(_) => "err".into(),
        },
        "dewey" => match Dewey::new(&g(0)) {
            Ok(d) => d.matches(&g(1)).to_string(),
            Err(_) => "err".into(),
        },
        "pkgname" => {
            let p = PkgName::new(&g(0));
            format!("{} {} {:?}", p.pkgbase(), p.pkgversion(), p.pkgrevision())
        }
        "pkgpath" => format!("{:?} {:?}", PkgPath::new(&g(0)).is_ok(), PkgPath::from_str(&g(0)).is_ok()),
        "depend" => format!("{:?} {:?}", Depend::new(&g(0)).is_ok(), Depend::from_str(&g(0)).is_ok()),
        "summary" => match pkgsrc::summary::Summary::from_str(&g(0)) {
            Ok(s) => {
                let _ = (s.pkgbase(), s.pkgversion(), s.file_size(), s.size_pkg(), s.description_as_str(), s.depends(), s.is_completed());
                format!("{}", s).len().to_string()
            }
            Err(_) => "err".into(),
        },
        "stream" => {
            use std::io::Write;
            let mut st = pkgsrc::summary::SummaryStream::new();
            let data = input;
            let step = 1 + (data.len() % 13);
            let mut res = String::new();
            for ch in data.chunks(step) {
                if st.write_all(ch).is_err() {
                    res.push('E');
                    break;
                }
            }
            let _ = st.flush();
            format!("{}{}", res, st.entries().len())
        }
        "plist" => match pkgsrc::plist::Plist::from_bytes(input) {
            Ok(p) => format!("{:?}", p).len().to_string(),
            Err(_) => "err".into(),
        },
        "plist_entry" => format!("{:?}", pkgsrc::plist::PlistEntry::from_bytes(input).is_ok()),
        "distinfo" => {
            let d = pkgsrc::distinfo::Distinfo::from_bytes(input);
            let _ = (d.rcsid(), d.distfiles().len(), d.patchfiles().len());
            d.as_bytes().len().to_string()
        }
        "scanindex" => format!("{:?}", ScanIndex::from_reader(input).map(|v| v.len()).map_err(|_| ())),
        "digest" => match pkgsrc::digest::Digest::from_str(&g(0)) {
            Ok(d) => format!("{} {:?}", d, d.hash_str(&g(1)).map(|h| h.len()).map_err(|_| ())),
            Err(_) => "err".into(),
        },
        "metadata" => {
            let mut m = Metadata::new();
            let mut out = String::new();
            for (i, e) in meta_entries().into_iter().enumerate() {
                out.push(if m.read_metadata(e, &g(i % f.len().max(1))).is_ok() { 'o' } else { 'e' });
            }
            format!("{} {} {:?}", out, m.is_valid().is_ok(), MetadataEntry::from_filename(&g(0)))
        }
        "pkgdb" => {
            let name = g(0);
            if name.is_empty() || name.contains('/') || name.contains('\0') || name == "." || name == ".." || name.len() > 200 {
                return "skipped".into();
            }
            let root = scratch("c17");
            build_tree(&root, "");
            let p = root.join(&name);
            let mut res = "mkdir-failed".to_string();
            if std::fs::create_dir_all(&p).is_ok() {
                for fnm in ["+COMMENT", "+CONTENTS", "+DESC", "+SIZE_PKG"] {
                    let _ = std::fs::write(p.join(fnm), g(1));
                }
                res = real_tree(&root);
                // the way a consumer loads the metadata of each package
                if let Ok(db) = pkgsrc::pkgdb::PkgDB::open(&root) {
                    for pk in db.flatten() {
                        let mut m = Metadata::new();
                        for (k, e) in meta_entries().into_iter().enumerate() {
                            if let Ok(t) = pk.read_metadata(e) {
                                if let Some(e2) = MetadataEntry::from_filename(META_NAMES[k]) {
                                    let _ = m.read_metadata(e2, &t);
                                }
                            }
                        }
                    }
                }
            }
            let _ = std::fs::remove_dir_all(&root);
            res.len().to_string()
        }
        _ => "unknown-entry".into(),
    }
}
/// all Summary setter / pusher / getter sequences: ops encoded as bytes
pub fn call_summary_ops(ops: &[u8]) -> String {
    use pkgsrc::summary::Summary;
    let mut s = Summary::new();
    let strs = ["", "x", "foo-1.0", "nodash", "a-", "-b", "99999999999999999999", "é\n", "a=b"];
    for w in ops.chunks(2) {
        let (op, a) = (w[0] % 64, w.get(1).copied().unwrap_or(0) as usize);
        let v = strs[a % strs.len()];
        let vs: Vec<String> = (0..a % 3).map(|i| strs[(a + i) % strs.len()].to_string()).collect();
        match op {
            0 => s.set_build_date(v), 1 => s.set_categories(v), 2 => s.set_comment(v), 3 => s.set_conflicts(&vs), 4 => s.set_depends(&vs),
            5 => s.set_description(&vs), 6 => s.set_file_cksum(v), 7 => s.set_file_name(v), 8 => s.set_file_size(a as i64 - 100), 9 => s.set_homepage(v),
            10 => s.set_license(v), 11 => s.set_machine_arch(v), 12 => s.set_opsys(v), 13 => s.set_os_version(v), 14 => s.set_pkg_options(v),
            15 => s.set_pkgname(v), 16 => s.set_pkgpath(v), 17 => s.set_pkgtools_version(v), 18 => s.set_prev_pkgpath(v), 19 => s.set_provides(&vs),
            20 => s.set_requires(&vs), 21 => s.set_size_pkg(i64::MAX - a as i64), 22 => s.set_supersedes(&vs), 23 => s.push_conflicts(v), 24 => s.push_depends(v),
            25 => s.push_description(v), 26 => s.push_provides(v), 27 => s.push_requires(v), 28 => s.push_supersedes(v),
            29 => { let _ = s.build_date(); } 30 => { let _ = s.categories(); } 31 => { let _ = s.comment(); } 32 => { let _ = s.conflicts(); }
            33 => { let _ = s.depends(); } 34 => { let _ = s.description(); } 35 => { let _ = s.description_as_str(); } 36 => { let _ = s.file_cksum(); }
            37 => { let _ = s.file_name(); } 38 => { let _ = s.file_size(); } 39 => { let _ = s.homepage(); } 40 => { let _ = s.license(); }
            41 => { let _ = s.machine_arch(); } 42 => { let _ = s.opsys(); } 43 => { let _ = s.os_version(); } 44 => { let _ = s.pkg_options(); }
            45 => { let _ = s.pkgname(); } 46 => { let _ = s.pkgbase(); } 47 => { let _ = s.pkgversion(); } 48 => { let _ = s.pkgpath(); }
            49 => { let _ = s.pkgtools_version(); } 50 => { let _ = s.prev_pkgpath(); } 51 => { let _ = s.provides(); } 52 => { let _ = s.requires(); }
            53 => { let _ = s.size_pkg(); } 54 => { let _ = s.supersedes(); } 55 => { let _ = s.is_completed(); } 56 => { let _ = format!("{}", s); }
            _ => {}
        }
    }
    "returned".into()
}

use std::sync::{Arc, Mutex};
use std::time::{Duration, Instant};
pub struct Watch { pub cur: Arc<Mutex<Option<(String, Vec<u8>, Instant)>>> }
pub const HANG_SECS: u64 = 8;
/// run `f` under catch_unwind and the hang watchdog; Ok(result) or Err("panic: ..")
pub fn guarded(w: &Watch, entry: &str, input: &[u8]) -> Result<String, String> {
    *w.cur.lock().unwrap() = Some((entry.to_string(), input.to_vec(), Instant::now()));
    let e = entry.to_string();
    let i = input.to_vec();
    let r = std::panic::catch_unwind(move || if e == "summary_ops" { call_summary_ops(&i) } else { call_entry(&e, &i) });
    *w.cur.lock().unwrap() = None;
    r.map_err(|p| {
        let msg = p.downcast_ref::<String>().cloned().or_else(|| p.downcast_ref::<&str>().map(|s| s.to_string())).unwrap_or_default();
        format!("panic: {}", msg.chars().take(120).collect::<String>())
    })
}
pub fn start_watchdog() -> Watch {
    let cur: Arc<Mutex<Option<(String, Vec<u8>, Instant)>>> = Arc::new(Mutex::new(None));
    let c2 = cur.clone();
    std::panic::set_hook(Box::new(|_| {}));
    std::thread::spawn(move || loop {
        std::thread::sleep(Duration::from_millis(250));
        let g = c2.lock().unwrap();
        if let Some((e, i, t)) = g.as_ref() {
            if t.elapsed() > Duration::from_secs(HANG_SECS) {
                witness("no_panic", &[("entry", e.clone()), ("hexinput", hex(i))], "returns", &format!("hang: no return within {} s", HANG_SECS));
                println!("SEARCH C17 disagreement-found (hang)");
                std::process::exit(0);
            }
        }
    });
    Watch { cur }
}
const NASTY: &[&str] = &["99999999999999999999", "184467440737095516160", "-", "--", "nb", "nb99999999999999999999", "{", "}", "{{", ",", ">=", "<", ">", "<=", "=", "\0", "[", "]", "*", "?",
    "\n", "\n\n", "\r\n", " ", "\t", "@", "@comment ", "@name ", "$NetBSD$", "SHA512 (", ") = ", "Size (", "PKGNAME=", "+SIZE_PKG", ":", "/", "..", ".", "é", "\u{212A}", "\u{0130}", "a-1", "1.0", "0x10", "+1", "-1", "1e9", "pl", "rc", "alpha", "_", "~"];
fn corpus(entry: &str, r: &mut Rng) -> Vec<u8> {
    let sep = [0xfeu8];
    let j = |parts: Vec<String>| -> Vec<u8> { parts.iter().map(|p| p.as_bytes().to_vec()).collect::<Vec<_>>().join(&sep[..]) };
    let ver = |r: &mut Rng| crate::gen_version(r);
    match entry {
        "pattern" => {
            let p = ["foo-[0-9]*", "foo>=1.0<2", "{a,b}-[0-9]*", "foo-1.0", "py{39,310}-x>=1", "foo>=", "foo<1>2", "*", "foo-{1,2}{3,4}"][r.below(9)].to_string();
            j(vec![p, format!("foo-{}", ver(r)), format!("foo-{}", ver(r))])
        }
        "dewey" => j(vec![format!("foo>={}<{}", ver(r), ver(r)), format!("foo-{}", ver(r))]),
        "pkgname" => j(vec![format!("foo-{}", ver(r))]),
        "pkgpath" => j(vec![["cat/pkg", "../../cat/pkg", "a/b/c", ""][r.below(4)].to_string()]),
        "depend" => j(vec![["foo-[0-9]*:../../cat/foo", "foo>=1:cat/foo", "x"][r.below(3)].to_string()]),
        "summary" | "stream" => { let fault = r.below(8) as u8; let mut t = crate::gen_entry_text(r, fault); if entry == "stream" { t.push('\n'); t.push_str(&crate::gen_entry_text(r, 0)); } t.into_bytes() }
        "plist" => crate::gen_plist(r, false),
        "plist_entry" => crate::gen_plist_line(r),
        "distinfo" => { let mut t = b"$NetBSD$\n\n".to_vec(); for _ in 0..r.below(6) { t.extend(crate::gen_dline(r)); t.push(b'\n'); } t }
        "scanindex" => gen_scan(r),
        "digest" => j(vec![["SHA512", "sha1", "BLAKE2s", "RMD160", "MD5", "SHA256", "nope"][r.below(7)].to_string(), "abc".into()]),
        "metadata" => j(vec![META_NAMES[r.below(14)].to_string(), ["12", " 12\n", "x", "", "9999999999999999999999", "a\nb\n"][r.below(6)].to_string()]),
        "pkgdb" => j(vec![["foo-1.0", "nodash", "a-b-1", "-", "foo-"][r.below(5)].to_string(), ["12\n", "x", ""][r.below(3)].to_string()]),
        _ => (0..r.below(24)).map(|_| r.next() as u8).collect(),
    }
}
fn mutate(mut b: Vec<u8>, r: &mut Rng) -> Vec<u8> {
    for _ in 0..r.below(4) {
        match r.below(9) {
            0 => { let k = r.below(b.len() + 1); b.truncate(k); }
            1 => { if !b.is_empty() { let a = r.below(b.len()); let e = a + r.below(b.len() - a + 1); let d = b[a..e].to_vec(); let k = r.below(b.len() + 1); b.splice(k..k, d); } }
            2 => { let n = r.pick(NASTY).as_bytes().to_vec(); let k = r.below(b.len() + 1); b.splice(k..k, n); }
            3 => { if !b.is_empty() { let k = r.below(b.len()); b[k] = [0u8, 0xff, 0x80, b'\n', b' ', b'-', b'9'][r.below(7)]; } }
            4 => { let k = r.below(b.len() + 1); let n = vec![[b'a', b'9', b' ', b'-', b'{'][r.below(5)]; 1 + r.below(6000)]; b.splice(k..k, n); }
            5 => { if !b.is_empty() { let k = r.below(b.len()); b.remove(k); } }
            6 => { let n = r.pick(NASTY).as_bytes().to_vec(); if b.len() >= n.len() && !n.is_empty() { let k = r.below(b.len() - n.len() + 1); b.splice(k..k + n.len(), n); } }
            7 => { if !b.is_empty() { let a = r.below(b.len()); let e = a + r.below(b.len() - a + 1); b.drain(a..e); } }
            _ => { let k = r.below(b.len() + 1); let pat: Vec<u8> = (0..1 + r.below(4)).map(|_| b'0' + r.below(10) as u8).collect(); let d: Vec<u8> = pat.iter().copied().cycle().take(1 + r.below(30)).collect(); b.splice(k..k, d); }
        }
    }
    b
}
pub fn search_c17(r: &mut Rng, iters: usize) -> bool {
    let w = start_watchdog();
    let t0 = Instant::now();
    let mut slow: Option<(String, Vec<u8>, Duration)> = None;
    // fixed inputs named in the property text
    for (e, i) in [("pattern", "foo>=99999999999999999999\u{fe}foo-1\u{fe}foo-2"), ("pkgname", "foo-99999999999999999999"), ("pkgname", "foo-1.0nb99999999999999999999"),
                   ("metadata", "+SIZE_PKG\u{fe}notanumber"), ("pkgdb", "nodash\u{fe}x"), ("dewey", "foo>=1<\u{fe}foo-1"), ("dewey", "pkg>=1.alpha\u{fe}pkg-1.99999999999999999999"), ("dewey", "pkg<1.99999999999999999999\u{fe}pkg-1.rc1"),
                   ("pattern", "pkg-[0-9]*\u{fe}pkg-1.99999999999999999999\u{fe}pkg-1.rc1"), ("pattern", "foo-[0-9]*\u{fe}f\u{fe}fo"), ("dewey", "foo<1>\u{fe}foo-1"), ("dewey", ">\u{fe}a-1")] {
        let bytes: Vec<u8> = i.chars().flat_map(|c| if c == '\u{fe}' { vec![0xfe] } else { c.to_string().into_bytes() }).collect();
        if let Err(p) = guarded(&w, e, &bytes) {
            witness("no_panic", &[("entry", e.to_string()), ("hexinput", hex(&bytes))], "returns", &p);
            return false;
        }
    }
    for n in 0..iters {
        let entry = if n % 15 == 14 { "summary_ops" } else { ENTRIES[n % 14] };
        if entry == "pkgdb" && n % (14 * 8) != 13 {
            continue;     // file-system rounds are slow: one in eight
        }
        let input = mutate(corpus(entry, r), r);
        let t = Instant::now();
        let res = guarded(&w, entry, &input);
        let d = t.elapsed();
        if slow.as_ref().map_or(true, |s| d > s.2) {
            slow = Some((entry.to_string(), input.clone(), d));
        }
        if let Err(p) = res {
            witness("no_panic", &[("entry", entry.to_string()), ("hexinput", hex(&input))], "returns", &p);
            return false;
        }
    }
    if let Some((e, i, d)) = slow {
        println!("C17 slowest call: entry={} input_len={} took {:?}; total {:?}", e, i.len(), d, t0.elapsed());
    }
    true
}
pub fn replay_no_panic(entry: &str, input: &[u8]) -> String {
    let w = start_watchdog();
    match guarded(&w, entry, input) {
        Ok(_) => "returns".into(),
        Err(p) => p,
    }
}

#[allow(dead_code)]
pub fn _unused(_: &dyn BufRead) {}

// ---------------- C13: digests
use pkgsrc::digest::Digest as PDigest;
/// a reader with a scripted schedule: each step is Ok(n) (deliver up to n bytes), Interrupted, or a hard error
pub struct SchedReader { pub data: Vec<u8>, pub pos: usize, pub sched: Vec<i32>, pub step: usize }
impl Read for SchedReader {
    fn read(&mut self, buf: &mut [u8]) -> std::io::Result<usize> {
        let s = if self.sched.is_empty() { 64 } else { self.sched[self.step % self.sched.len()] };
        self.step += 1;
        if s == -1 {
            return Err(std::io::Error::new(std::io::ErrorKind::Interrupted, "interrupted"));
        }
        if s == -2 {
            return Err(std::io::Error::new(std::io::ErrorKind::Other, "hard error"));
        }
        let n = buf.len().min(self.data.len() - self.pos).min(s.max(1) as usize);
        buf[..n].copy_from_slice(&self.data[self.pos..self.pos + n]);
        self.pos += n;
        Ok(n)
    }
}
pub const ALGOS: [(&str, usize); 6] = [("BLAKE2s", 32), ("MD5", 16), ("RMD160", 20), ("SHA1", 20), ("SHA256", 32), ("SHA512", 64)];
pub fn kat_input(n: usize) -> Vec<u8> {
    (0..n).map(|i| ((i * 7 + 3) % 256) as u8).collect()
}
/// statement: the input with every newline-terminated line containing '$NetBSD' removed (a final unterminated line counting as terminated)
pub fn patch_filter_oracle(b: &[u8]) -> Vec<u8> {
    let mut out = vec![];
    let mut i = 0;
    while i < b.len() {
        let mut j = i;
        while j < b.len() && b[j] != b'\n' {
            j += 1;
        }
        let line = &b[i..j];
        let marked = line.len() >= 7 && (0..=line.len() - 7).any(|k| &line[k..k + 7] == b"$NetBSD");
        if !marked {
            out.extend_from_slice(line);
            out.push(b'\n');
        }
        i = j + 1;
    }
    out
}
fn parse_sched(s: &str) -> Vec<i32> {
    s.split(',').filter_map(|x| x.trim().parse().ok()).collect()
}
pub fn real_digest(kind: &str, algo: &str, data: &[u8], sched: &str) -> String {
    let d = match PDigest::from_str(algo) {
        Ok(d) => d,
        Err(_) => return "unsupported".into(),
    };
    let mut rd = SchedReader { data: data.to_vec(), pos: 0, sched: parse_sched(sched), step: 0 };
    let r = match kind {
        "file" => d.hash_file(&mut rd),
        "patch" => d.hash_patch(&mut rd),
        _ => match std::str::from_utf8(data) { Ok(s) => d.hash_str(s), Err(_) => return "not-utf8".into() },
    };
    match r {
        Ok(h) => h,
        Err(_) => "error".into(),
    }
}
fn gen_sched(r: &mut Rng, hard: bool) -> String {
    let mut v: Vec<String> = (0..1 + r.below(6)).map(|_| match r.below(5) { 0 => "-1".to_string(), 1 => "1".to_string(), _ => (1 + r.below(200)).to_string() }).collect();
    if v.iter().all(|x| x == "-1") {
        v.push("3".into());
    }
    if hard {
        v.push("-2".into());
    }
    v.join(",")
}
fn gen_patch(r: &mut Rng) -> Vec<u8> {
    let parts: [&[u8]; 12] = [b"$NetBSD", b"$NetBSD: patch-aa,v 1.1 $", b"\n", b"\n", b"--- a/file\n", b"+++ b/file", b"$NetBS", b"NetBSD$", b"x", b"\r\n", b"$$NetBSD$", b"\xff\x00"];
    let mut b = vec![];
    for _ in 0..r.below(10) {
        b.extend_from_slice(parts[r.below(12)]);
    }
    b
}
pub fn search_c13(r: &mut Rng, iters: usize) -> bool {
    let chk = |kind: &str, algo: &str, data: &[u8], sched: &str, expect: &str| -> bool {
        let a = real_digest(kind, algo, data, sched);
        if a != expect {
            witness("digest", &[("entry", kind.to_string()), ("algo", algo.to_string()), ("hexdata", hex(data)), ("sched", sched.to_string())], expect, &a);
            return false;
        }
        true
    };
    // 1. known answers (independent implementation), through the reader entry point with three schedules, and the string entry point
    for (algo, n, want) in crate::kat::KAT {
        let data = kat_input(*n);
        for sched in ["64", "1", "-1,7,-1,-1,300"] {
            if !chk("file", algo, &data, sched, want) {
                return false;
            }
        }
    }
    // 2. names: every case variant parses, prints canonically
    for (algo, size) in ALGOS {
        for mask in 0..(1u32 << algo.len()) {
            let v: String = algo.chars().enumerate().map(|(i, c)| if mask >> i & 1 == 1 { c.to_ascii_uppercase() } else { c.to_ascii_lowercase() }).collect();
            let shown = PDigest::from_str(&v).map(|d| d.to_string()).unwrap_or_else(|_| "unsupported".into());
            if shown != algo {
                witness("digest_name", &[("name", v)], algo, &shown);
                return false;
            }
        }
        for bad in [format!("{} ", algo), format!("{}x", algo), algo[1..].to_string(), String::new(), "sha".to_string(), "SHA-1".to_string()] {
            if PDigest::from_str(&bad).is_ok() {
                witness("digest_name", &[("name", bad)], "unsupported", "accepted");
                return false;
            }
        }
        let h = real_digest("str", algo, b"", "");
        if h.len() != 2 * size || !h.chars().all(|c| c.is_ascii_digit() || ('a'..='f').contains(&c)) {
            witness("digest", &[("entry", "str".into()), ("algo", algo.to_string()), ("hexdata", String::new()), ("sched", String::new())], &format!("{} lower-case hex digits", 2 * size), &h);
            return false;
        }
    }
    // 3. random inputs: schedule independence, string == reader, patch == plain hash of the filtered input, hard errors are errors
    for n in 0..iters / 20 {
        let (algo, _) = ALGOS[n % 6];
        let data: Vec<u8> = if r.below(2) == 0 { gen_patch(r) } else { (0..r.below(300)).map(|_| [b'a', b'\n', b'$', 0x80, b'N'][r.below(5)]).collect() };
        let plain = real_digest("file", algo, &data, "1000000");
        let s1 = gen_sched(r, false);
        if !chk("file", algo, &data, &s1, &plain) {
            return false;
        }
        if std::str::from_utf8(&data).is_ok() && !chk("str", algo, &data, "", &plain) {
            return false;
        }
        let filtered = patch_filter_oracle(&data);
        let want = real_digest("file", algo, &filtered, "1000000");
        let s2 = gen_sched(r, false);
        if !chk("patch", algo, &data, &s2, &want) {
            return false;
        }
        let s3 = gen_sched(r, true);
        // the hard error is reached iff the schedule's earlier steps cannot deliver all data and the end-of-file read
        let mut probe = SchedReader { data: data.clone(), pos: 0, sched: parse_sched(&s3), step: 0 };
        let mut sink = vec![0u8; 512];
        let mut hit = false;
        loop {
            match probe.read(&mut sink) {
                Ok(0) => break,
                Ok(_) => {}
                Err(e) if e.kind() == std::io::ErrorKind::Interrupted => {}
                Err(_) => { hit = true; break; }
            }
        }
        let want3 = if hit { "error".to_string() } else { plain.clone() };
        if !chk("file", algo, &data, &s3, &want3) {
            return false;
        }
        if hit && !chk("patch", algo, &data, &s3, "error") {
            return false;
        }
    }
    true
}
/// every byte value through format!("{:02x}") as used by the hex encoder's shim contract (complete over u8)
pub fn hex2_table_ok() -> bool {
    (0..=255u8).all(|b| {
        let s = format!("{b:02x}");
        let d = |n: u8| b"0123456789abcdef"[n as usize] as char;
        s.chars().collect::<Vec<_>>() == vec![d(b / 16), d(b % 16)]
    })
}

/// thorough tier: print digests of a deterministic family of inputs for comparison with an independent implementation
pub fn dump_digests(seed: u64, count: usize) {
    let mut r = Rng::new(seed ^ 0xD16E57);
    let lens = [0usize, 1, 54, 55, 56, 57, 63, 64, 65, 111, 112, 113, 119, 120, 127, 128, 129, 255, 256, 1023, 4097, 70001];
    let mut n = 0;
    while n < count {
        let (algo, _) = ALGOS[n % 6];
        let data: Vec<u8> = if n < 6 * lens.len() { let l = lens[n / 6]; (0..l).map(|_| r.next() as u8).collect() } else if n % 2 == 0 { gen_patch(&mut r) } else { (0..r.below(2000)).map(|_| r.next() as u8).collect() };
        let sched = gen_sched(&mut r, false);
        println!("DIGEST {} file {} {}", algo, hex(&data), real_digest("file", algo, &data, &sched));
        println!("DIGEST {} patch {} {}", algo, hex(&data), real_digest("patch", algo, &data, &sched));
        n += 1;
    }
}

// ---------------- C07: call histories through the setter / pusher API
/// set variable `name` to `vals` through the public API; `mode` chooses between equivalent call sequences
pub fn api_apply(s: &mut pkgsrc::summary::Summary, name: &str, vals: &[String], mode: u8) {
    let junk = "junk-value".to_string();
    let one = |s: &mut pkgsrc::summary::Summary, f: &dyn Fn(&mut pkgsrc::summary::Summary, &str)| {
        if mode % 3 == 1 { f(s, &junk); }                  // overwritten by the final value
        f(s, &vals[0]);
        if mode % 3 == 2 { f(s, &vals[0]); }               // repeated
    };
    match name {
        "BUILD_DATE" => one(s, &|s, v| s.set_build_date(v)), "CATEGORIES" => one(s, &|s, v| s.set_categories(v)), "COMMENT" => one(s, &|s, v| s.set_comment(v)),
        "FILE_CKSUM" => one(s, &|s, v| s.set_file_cksum(v)), "FILE_NAME" => one(s, &|s, v| s.set_file_name(v)), "HOMEPAGE" => one(s, &|s, v| s.set_homepage(v)),
        "LICENSE" => one(s, &|s, v| s.set_license(v)), "MACHINE_ARCH" => one(s, &|s, v| s.set_machine_arch(v)), "OPSYS" => one(s, &|s, v| s.set_opsys(v)),
        "OS_VERSION" => one(s, &|s, v| s.set_os_version(v)), "PKG_OPTIONS" => one(s, &|s, v| s.set_pkg_options(v)), "PKGNAME" => one(s, &|s, v| s.set_pkgname(v)),
        "PKGPATH" => one(s, &|s, v| s.set_pkgpath(v)), "PKGTOOLS_VERSION" => one(s, &|s, v| s.set_pkgtools_version(v)), "PREV_PKGPATH" => one(s, &|s, v| s.set_prev_pkgpath(v)),
        "FILE_SIZE" => { if mode % 2 == 1 { s.set_file_size(-7); } s.set_file_size(vals[0].parse().unwrap()) }
        "SIZE_PKG" => { if mode % 2 == 1 { s.set_size_pkg(i64::MIN); } s.set_size_pkg(vals[0].parse().unwrap()) }
        _ => {
            let set = |s: &mut pkgsrc::summary::Summary, v: &[String]| match name {
                "CONFLICTS" => s.set_conflicts(v), "DEPENDS" => s.set_depends(v), "DESCRIPTION" => s.set_description(v), "PROVIDES" => s.set_provides(v),
                "REQUIRES" => s.set_requires(v), _ => s.set_supersedes(v),
            };
            let push = |s: &mut pkgsrc::summary::Summary, v: &str| match name {
                "CONFLICTS" => s.push_conflicts(v), "DEPENDS" => s.push_depends(v), "DESCRIPTION" => s.push_description(v), "PROVIDES" => s.push_provides(v),
                "REQUIRES" => s.push_requires(v), _ => s.push_supersedes(v),
            };
            match mode % 4 {
                0 => set(s, vals),
                1 => { for v in vals { push(s, v); } }                                  // only valid when nothing was set before
                2 => { set(s, &[junk.clone()]); set(s, &vals[..1]); for v in &vals[1..] { push(s, v); } }
                _ => { set(s, &[]); for v in vals { push(s, v); } }
            }
        }
    }
}
/// one more value for a multi-line variable through its pusher
pub fn api_push(s: &mut pkgsrc::summary::Summary, name: &str, v: &str) {
    match name {
        "CONFLICTS" => s.push_conflicts(v), "DEPENDS" => s.push_depends(v), "DESCRIPTION" => s.push_description(v), "PROVIDES" => s.push_provides(v),
        "REQUIRES" => s.push_requires(v), _ => s.push_supersedes(v),
    }
}
/// C08: what the 23 getters (and description_as_str) return, as canonical text "VAR=value" lines in pkg_summary order - the same
/// shape as the printed entry, but read through the accessors one by one
pub fn summary_getters(s: &pkgsrc::summary::Summary) -> String {
    let mut o = String::new();
    let one = |o: &mut String, k: &str, v: Option<&str>| if let Some(v) = v { o.push_str(&format!("{}={}\n", k, v)); };
    let many = |o: &mut String, k: &str, v: Option<&[String]>| if let Some(v) = v { for x in v { o.push_str(&format!("{}={}\n", k, x)); } };
    let int = |o: &mut String, k: &str, v: Option<i64>| if let Some(v) = v { o.push_str(&format!("{}={}\n", k, v)); };
    one(&mut o, "BUILD_DATE", s.build_date()); one(&mut o, "CATEGORIES", s.categories()); one(&mut o, "COMMENT", s.comment());
    many(&mut o, "CONFLICTS", s.conflicts()); many(&mut o, "DEPENDS", s.depends()); many(&mut o, "DESCRIPTION", s.description());
    one(&mut o, "FILE_CKSUM", s.file_cksum()); one(&mut o, "FILE_NAME", s.file_name()); int(&mut o, "FILE_SIZE", s.file_size());
    one(&mut o, "HOMEPAGE", s.homepage()); one(&mut o, "LICENSE", s.license()); one(&mut o, "MACHINE_ARCH", s.machine_arch());
    one(&mut o, "OPSYS", s.opsys()); one(&mut o, "OS_VERSION", s.os_version()); one(&mut o, "PKG_OPTIONS", s.pkg_options());
    one(&mut o, "PKGNAME", s.pkgname()); one(&mut o, "PKGPATH", s.pkgpath()); one(&mut o, "PKGTOOLS_VERSION", s.pkgtools_version());
    one(&mut o, "PREV_PKGPATH", s.prev_pkgpath()); many(&mut o, "PROVIDES", s.provides()); many(&mut o, "REQUIRES", s.requires());
    int(&mut o, "SIZE_PKG", s.size_pkg()); many(&mut o, "SUPERSEDES", s.supersedes());
    o
}
