//! verif-replay: counterexample search and witness replay against the REAL crate (public API only).
//!   verif-replay search <PROPERTY> <seed>      -> prints `WITNESS <json>` for the first disagreement found
//!   verif-replay witness <kind> k=hex ...       -> re-runs one input; exit 1 if the real code still disagrees
//!   verif-replay bounded <PROPERTY>             -> exhaustive bounded cross-checks (thorough tier), prints counts
mod oracle;
mod more;
mod kat;
use oracle::*;
use pkgsrc::distinfo::{Distinfo, Entry, Checksum, DistinfoError};
use pkgsrc::digest::Digest;
use std::path::PathBuf;
use pkgsrc::plist::{Plist, PlistEntry};
use pkgsrc::summary::{Summary, SummaryStream};
use std::io::Write;
use std::str::FromStr;
use pkgsrc::{Dewey, Pattern, PkgName};
use std::ffi::OsString;
use std::os::unix::ffi::{OsStrExt, OsStringExt};
use std::collections::BTreeMap;

struct Rng(u64);
impl Rng {
    fn new(seed: u64) -> Rng {
        Rng(seed.wrapping_mul(0x9E3779B97F4A7C15) ^ 0xD1B54A32D192ED03 | 1)
    }
    fn next(&mut self) -> u64 {
        let mut x = self.0;
        x ^= x >> 12;
        x ^= x << 25;
        x ^= x >> 27;
        self.0 = x;
        x.wrapping_mul(0x2545F4914F6CDD1D)
    }
    fn below(&mut self, n: usize) -> usize {
        (self.next() % (n as u64)) as usize
    }
    fn pick<T: Copy>(&mut self, v: &[T]) -> T {
        v[self.below(v.len())]
    }
    fn pick_ref<'a, T>(&mut self, v: &'a [T]) -> &'a T {
        &v[self.below(v.len())]
    }
}

fn jesc(s: &str) -> String {
    let mut o = String::from("\"");
    for c in s.chars() {
        match c {
            '"' => o.push_str("\\\""),
            '\\' => o.push_str("\\\\"),
            '\n' => o.push_str("\\n"),
            '\r' => o.push_str("\\r"),
            '\t' => o.push_str("\\t"),
            c if (c as u32) < 0x20 => o.push_str(&format!("\\u{:04x}", c as u32)),
            c => o.push(c),
        }
    }
    o.push('"');
    o
}
fn witness(kind: &str, fields: &[(&str, String)], expected: &str, actual: &str) {
    let mut s = format!("{{\"kind\": {}", jesc(kind));
    for (k, v) in fields {
        s.push_str(&format!(", {}: {}", jesc(k), jesc(v)));
    }
    s.push_str(&format!(", \"expected\": {}, \"actual\": {}}}", jesc(expected), jesc(actual)));
    println!("WITNESS {}", s);
}

const PIECES: &[&str] = &[
    "0", "1", "2", "9", "10", "12", "007", "100", "999999999999999999", "9223372036854775807", "9223372036854775808", "99999999999999999999", ".", ".", "_", "pl", "alpha", "beta", "rc", "pre", "nb", "nb1", "nb2",
    "nb10", "a", "b", "z", "n", "p", "r", "A", "RC", "Alpha", "BETA", "NB3", "Pre", "PL", "*", "?", "[", "]", "é", "ß", "+", "~", " ", "x", "al", "be", "pr", "\u{212A}", "\u{0130}", "\u{FF21}", "\u{0391}",
];
fn gen_version(r: &mut Rng) -> String {
    let n = r.below(6);
    let mut s = String::new();
    for _ in 0..n {
        s.push_str(r.pick(PIECES));
    }
    s
}
const OPS: &[(&str, Op)] = &[(">", Op::GT), (">=", Op::GE), ("<", Op::LT), ("<=", Op::LE)];

fn real_pattern_match(p: &str, name: &str) -> Option<bool> {
    match Pattern::new(p) {
        Ok(pat) => Some(pat.matches(name)),
        Err(_) => None,
    }
}
fn ob(x: Option<bool>) -> String {
    match x {
        Some(b) => b.to_string(),
        None => "compile-error".into(),
    }
}

fn check_pattern(p: &str, name: &str, la: bool) -> bool {
    // the statement's glob subset excludes '**' (the glob crate gives it path semantics): not compared
    if p.contains("**") || (has_any(p, "{}") && balanced(p) && expand(p).iter().any(|e| e.contains("**"))) {
        return true;
    }
    let e = pattern_match(p, name, la);
    let a = real_pattern_match(p, name);
    if e != a {
        witness("pattern_match", &[("pattern", p.into()), ("pkg", name.into())], &ob(e), &ob(a));
        return false;
    }
    true
}

/// one compiled Pattern (and, for comparison patterns, one Dewey) asked about several names in a row, forwards then backwards: every
/// answer must be the statement's, whatever was asked before (a memo, a cached split or any other state kept between calls shows here)
fn check_pattern_seq(p: &str, names: &[&str], la: bool) -> bool {
    if p.contains("**") || (has_any(p, "{}") && balanced(p) && expand(p).iter().any(|e| e.contains("**"))) {
        return true;
    }
    let Ok(pat) = Pattern::new(p) else { return true };
    let dw = if !has_any(p, "{}") && has_any(p, "<>") { Dewey::new(p).ok() } else { None };
    let seq: Vec<&str> = names.iter().chain(names.iter().rev()).copied().collect();
    for (k, n) in seq.iter().enumerate() {
        let e = pattern_match(p, n, la);
        let a = Some(pat.matches(n));
        let d = dw.as_ref().map(|d| d.matches(n));
        if e != a || (d.is_some() && d != a) {
            witness("pattern_match_seq", &[("pattern", p.into()), ("names", seq[..=k].join("\u{1f}"))], &ob(e), &ob(if e != a { a } else { d }));
            return false;
        }
    }
    true
}

fn search_c01(r: &mut Rng, la: bool, iters: usize) -> bool {
    for _ in 0..iters {
        let v1 = gen_version(r);
        let v2 = gen_version(r);
        let (ops, op) = r.pick(OPS);
        let p = format!("p{}{}", ops, v2);
        let n = format!("p-{}", v1);
        let e = holds(op, cmp3(&tokens(&v1, la), &tokens(&v2, la)));
        let a = real_pattern_match(&p, &n);
        if a != Some(e) {
            witness("pattern_match", &[("pattern", p), ("pkg", n)], &e.to_string(), &ob(a));
            return false;
        }
        // through best_match
        let n2 = if r.below(4) == 0 { format!("p-{}", equiv_variant(&v1, r)) } else { format!("p-{}", v2) };
        if let Ok(pat) = Pattern::new("p-*") {
            let e = best(&n, &n2, la);
            let a = pat.best_match(&n, &n2);
            if a != Some(e) {
                witness("best_match", &[("pattern", "p-*".into()), ("a", n.clone()), ("b", n2.clone())], e, a.unwrap_or("<none>"));
                return false;
            }
        }
    }
    true
}

fn search_c02(r: &mut Rng, la: bool, iters: usize) -> bool {
    let bases = ["p", "foo-bar", "", "é", "a-1", "lib", "x>"];
    for _ in 0..iters {
        let base = r.pick(&bases);
        let nops = r.below(4);
        let mut p = String::from(base);
        for _ in 0..nops {
            p.push_str(r.pick(OPS).0);
            if r.below(8) == 0 {
                p.push('=');
            }
            p.push_str(&gen_version(r));
        }
        let name = match r.below(7) {
            0 => gen_version(r),
            1 => format!("{}{}", base, gen_version(r)),
            2 => format!("{}-{}-{}", base.trim_end_matches('>'), r.pick(&["client", "x", "vid", "1", ""]), gen_version(r)),
            3 => format!("{}{}-{}", r.pick(&["lib", "x-", "-"]), base.trim_end_matches('>'), gen_version(r)),
            _ => format!("{}-{}", base.trim_end_matches('>'), gen_version(r)),
        };
        let e = dewey_match(&p, &name, la);
        let a = Dewey::new(&p).ok().map(|d| d.matches(&name));
        if e != a {
            witness("dewey_match", &[("pattern", p), ("pkg", name)], &ob(e), &ob(a));
            return false;
        }
        if !has_any(&p, "{}") && has_any(&p, "<>") {
            let b = real_pattern_match(&p, &name);
            if b != a {
                witness("pattern_vs_dewey", &[("pattern", p), ("pkg", name)], &ob(a), &ob(b));
                return false;
            }
        }
    }
    true
}

fn dm(op: &str, a: &str, b: &str) -> Option<bool> {
    // verdict of `A op B` with B in the pattern and A the package version
    Dewey::new(&format!("p{}{}", op, b)).ok().map(|d| d.matches(&format!("p-{}", a)))
}
fn search_c03(r: &mut Rng, iters: usize) -> bool {
    let mut pool: Vec<String> = (0..40).map(|_| gen_version(r)).collect();
    pool.extend(["99999999999999999999999".to_string(), "alpha".into(), "1".into(), "1.0".into(), "1nb1".into(), "1.0nb1".into(), "1nb2".into(), "".into()]);
    for _ in 0..iters {
        let a = r.pick_ref(&pool).clone();
        let b = r.pick_ref(&pool).clone();
        let c = r.pick_ref(&pool).clone();
        let fail = |law: &str, detail: String| {
            witness("order_law", &[("law", law.into()), ("a", a.clone()), ("b", b.clone()), ("c", c.clone())], "law holds", &detail);
        };
        let (lt, gt, le, ge) = (dm("<", &a, &b), dm(">", &a, &b), dm("<=", &a, &b), dm(">=", &a, &b));
        let (Some(lt), Some(gt), Some(le), Some(ge)) = (lt, gt, le, ge) else { continue };
        let eq = le && ge;
        if [lt, gt, eq].iter().filter(|x| **x).count() != 1 {
            fail("trichotomy", format!("lt={} gt={} eq={}", lt, gt, eq));
            return false;
        }
        if le == gt || ge == lt {
            fail("duality", format!("le={} gt={} ge={} lt={}", le, gt, ge, lt));
            return false;
        }
        if dm("<=", &a, &a) != Some(true) || dm(">=", &a, &a) != Some(true) {
            fail("reflexivity", "A<=A or A>=A false".into());
            return false;
        }
        if dm(">", &b, &a) != Some(lt) || dm(">=", &b, &a) != Some(le) {
            fail("swap", format!("A<B={} but B>A={:?}; A<=B={} but B>=A={:?}", lt, dm(">", &b, &a), le, dm(">=", &b, &a)));
            return false;
        }
        if le && dm("<=", &b, &c) == Some(true) && dm("<=", &a, &c) != Some(true) {
            fail("transitivity", "A<=B, B<=C but not A<=C".into());
            return false;
        }
        // two-bound = conjunction (only when the texts contain no operator chars, true by construction)
        for (lo, hi) in [(">=", "<"), (">=", "<="), (">", "<"), (">", "<=")] {
            // also with both bounds equal (c2 == a) and with the candidate equal to a bound
            for (c2, b2) in [(&c, &b), (&a, &b), (&a, &a), (&c, &c)] {
                let two = Dewey::new(&format!("p{}{}{}{}", lo, a, hi, c2)).ok().map(|d| d.matches(&format!("p-{}", b2)));
                let conj = match (dm(lo, b2, &a), dm(hi, b2, c2)) {
                    (Some(x), Some(y)) => Some(x && y),
                    _ => None,
                };
                if two.is_some() && two != conj {
                    fail("two-bound", format!("pattern p{}{}{}{} vs p-{}: two-bound={:?} conjunction={:?}", lo, a, hi, c2, b2, two, conj));
                    return false;
                }
            }
        }
    }
    true
}

fn brace_patterns(maxlen: usize) -> Vec<String> {
    let alpha = ['a', 'b', ',', '{', '}'];
    let mut out = vec![String::new()];
    let mut frontier = vec![String::new()];
    for _ in 0..maxlen {
        let mut next = vec![];
        for s in &frontier {
            for c in alpha {
                let mut t = s.clone();
                t.push(c);
                next.push(t);
            }
        }
        out.extend(next.iter().cloned());
        frontier = next;
    }
    out
}
fn bounded_c04(maxlen: usize) -> (usize, usize, bool) {
    let names = ["", "a", "b", "ab", "ba", "aa", "bb", "aab", "abb", "aba", "a,b", "abab"];
    let mut pats = 0;
    let mut evals = 0;
    for p in brace_patterns(maxlen) {
        if !has_any(&p, "{}") {
            continue;
        }
        pats += 1;
        let ok = Pattern::new(&p).is_ok();
        if ok != balanced(&p) {
            witness("pattern_compile", &[("pattern", p.clone())], &balanced(&p).to_string(), &ok.to_string());
            return (pats, evals, false);
        }
        if !ok {
            continue;
        }
        // the formal definition of the expansion (dhas) against the operational left-to-right one: same set of strings
        let mut a = oracle::expand(&p);
        let mut b = oracle::expand_d(&p);
        a.sort();
        a.dedup();
        b.sort();
        b.dedup();
        if a != b {
            println!("SPEC-MISMATCH C04 pattern={:?} operational={:?} denotational={:?}", p, a, b);
            std::process::exit(3);
        }
        for n in names {
            evals += 1;
            if !check_pattern(&p, n, true) {
                return (pats, evals, false);
            }
        }
    }
    (pats, evals, true)
}
fn search_c04(r: &mut Rng, la: bool, iters: usize) -> bool {
    let (_, _, ok) = bounded_c04(5);
    if !ok {
        return false;
    }
    for p in ["foo-{1.0,[0-9}", "foo{>=1,<1>0}", "{[,a}-{1.0,2.0}", "foo{-client,}-1.0", "py{39,310,}-sphinx>=4<8", "{a{b,},c}-1.0", "foo{}-1.0", "{,*-}curl-[0-9]*",
              "{mysql,mariadb}-[0-9]*", "a-{b,c}-{d{e,f},g}-h>=1", "{a{b,c},d}-1.0"] {
        for n in ["foo-1.0", "foo-1.5", "a-1.0", "foo-client-1.0", "py-sphinx-5.0", "py39-sphinx-5.0", "c-1.0", "ab-1.0", "ad-1.0", "d-1.0", "py312-curl-7.45", "curl-7.45",
                  "mysql-8.0", "a-b-de-h-2", "a-c-g-h-2", "a-b-d-h-2", "ac-1.0"] {
            if !check_pattern(p, n, la) {
                return false;
            }
        }
        if !check_pattern_seq(p, &["foo-1.0", "foo-1.5", "a-1.0", "foo-client-1.0", "py-sphinx-5.0", "py39-sphinx-5.0", "c-1.0", "ab-1.0", "ad-1.0", "d-1.0", "curl-7.45", "mysql-8.0", "a-b-de-h-2", "ac-1.0"], la) {
            return false;
        }
    }
    let frag = ["a", "b", "{", "}", ",", "{a,b}", "{,x}", "-1.0", ">=1", "<2", "-[0-9]*", "{b,c}", "pkg", "d", "-", "1", "*", "[0-9", "<1>0", "{a,}", "{}"];
    let names = ["ad-1.0", "ab-1.0", "ac-1.0", "d-1.0", "pkg-1.0", "a-1", "b-1", "pkgb-1.0", "x-1.0", "ab", "a", ""];
    for _ in 0..iters {
        let mut p = String::new();
        for _ in 0..(1 + r.below(6)) {
            p.push_str(r.pick(&frag));
        }
        if !has_any(&p, "{}") {
            continue;
        }
        let ok = Pattern::new(&p).is_ok();
        if ok != balanced(&p) {
            witness("pattern_compile", &[("pattern", p.clone())], &balanced(&p).to_string(), &ok.to_string());
            return false;
        }
        if ok {
            let n = r.pick(&names);
            if !check_pattern(&p, n, la) {
                return false;
            }
        }
    }
    true
}

const DICT_PATS: &[&str] = &["foo-[0-9]*", "mutt-[0-9]*", "py-foo-[0-9]*", "*ssl-[0-9]*", "[a-f]oo-[0-9]*", "?oo-1*", "foo-1.[0-9]*", "foo-[0123456789]*",
    "f*-[0-9]*", "foo-*", "foo*", "[!f]oo-[0-9]*", "foo-1.0", "fo?-[0-9]*", "foo-[0-9]*-rc?"];
const DICT_NAMES: &[&str] = &["foo-1.0", "foo-1.0-rc1", "foo-2-3", "foo-bar-1.0", "openssl-3.3.1", "mutt-2.2.13-20240101", "py-foo-1.0-2", "goo-1.0", "foo-", "foo",
    "fo", "f", "", "boo-1.0", "fxo-1.0", "foo-x1", "mutt-vid-1.1", "foo-1.0nb2"];
fn search_c05(r: &mut Rng, la: bool, iters: usize) -> bool {
    for p in DICT_PATS {
        for n in DICT_NAMES {
            if !check_pattern(p, n, la) {
                return false;
            }
        }
        if !check_pattern_seq(p, DICT_NAMES, la) {
            return false;
        }
    }
    for p in ["foo>=1.0", "foo>1<2", "foo-bar<=1.0nb2", "p>=1.0alpha"] {
        if !check_pattern_seq(p, &["foo-1.0", "foo-0.9", "foo-1.5", "foo-2", "foo-bar-1.0", "foo-bar-1.0nb3", "p-1.0", "p-1.0alpha", "foo", "bar-1.0"], la) {
            return false;
        }
    }
    let frag = ["a", "b", "ab", "-", "*", "?", "[ab]", "[!a]", "[a-c]", "[0-9]", "1", ".", "x", "-1", "[!0-9]", "B", "[^a]", "[^0-9]", "[a^]", "^", "!", "[.]", "[*]"];
    let nfrag = ["a", "b", "ab", "-", "1", ".", "x", "c", "B", "", "0", "9", "^", "!", "*", "A"];
    for _ in 0..iters {
        let mut p = String::new();
        for _ in 0..(1 + r.below(5)) {
            p.push_str(r.pick(&frag));
        }
        if p.contains("**") {
            continue;
        }
        let mut n = String::new();
        if r.below(3) == 0 {
            // near miss: the pattern's literal text with one char changed in the first two positions
            n = p.replace(['*', '?'], "").replace("[ab]", "a").replace("[!a]", "b").replace("[a-c]", "b").replace("[0-9]", "5").replace("[!0-9]", "x");
            if !n.is_empty() && r.below(2) == 0 {
                let k = r.below(n.chars().count().min(2));
                n = n.chars().enumerate().map(|(i, c)| if i == k { 'q' } else { c }).collect();
            }
        } else {
            for _ in 0..r.below(6) {
                n.push_str(r.pick(&nfrag));
            }
        }
        if !check_pattern(&p, &n, la) {
            return false;
        }
    }
    // malformed globs are reported
    for bad in ["a[", "[a", "x[0-9", "a[!"] {
        if Pattern::new(bad).is_ok() {
            witness("pattern_compile", &[("pattern", bad.into())], "false", "true");
            return false;
        }
    }
    true
}

/// a differently spelled version that compares equal (or nearly) under the dewey rule
fn equiv_variant(v: &str, r: &mut Rng) -> String {
    match r.below(8) {
        0 => format!("{}.0", v),
        1 => v.replace('.', "_"),
        2 => v.replace("rc", "pre"),
        3 => v.replace("pre", "RC"),
        4 => v.replacen('.', "pl", 1),
        5 => v.to_uppercase(),
        6 => format!("{}.0.0", v),
        _ => format!("{}nb0", v),
    }
}
fn search_c06(r: &mut Rng, la: bool, iters: usize) -> bool {
    let pats = ["p-[0-9]*", "p>=0", "{p,q}-[0-9]*", "p-1*", "p>=1<3", "lib*", "p-*", "9base*"];
    for _ in 0..iters {
        let p = r.pick(&pats);
        let mk = |r: &mut Rng| -> String {
            match r.below(8) {
                0 => "libfoo".to_string(),
                1 => "libbar".to_string(),
                2 => format!("q-{}", gen_version(r)),
                3 => "9base".into(),
                4 => "9base-6".into(),
                _ => format!("p-{}", gen_version(r)),
            }
        };
        let a = mk(r);
        let b = if r.below(4) == 0 && a.starts_with("p-") { format!("p-{}", equiv_variant(&a[2..], r)) } else { mk(r) };
        // pairwise reduction of a candidate list in two different orders gives the same winner
        if r.below(6) == 0 {
            if let Ok(pat) = Pattern::new(p) {
                let c = mk(r);
                let d = if a.starts_with("p-") { format!("p-{}", equiv_variant(&a[2..], r)) } else { mk(r) };
                let list = [a.clone(), b.clone(), c.clone(), d.clone()];
                let red = |order: &[usize]| -> Option<String> {
                    let mut cur: Option<String> = None;
                    for &i in order {
                        let x = &list[i];
                        cur = match cur {
                            None => if pat.matches(x) { Some(x.clone()) } else { None },
                            Some(w) => Some(pat.best_match(&w, x).map(|s| s.to_string()).unwrap_or(w)),
                        };
                    }
                    cur
                };
                let (r1, r2, r3) = (red(&[0, 1, 2, 3]), red(&[3, 2, 1, 0]), red(&[2, 0, 3, 1]));
                if r1 != r2 || r1 != r3 {
                    witness("best_reduce", &[("pattern", p.to_string()), ("a", list[0].clone()), ("b", list[1].clone()), ("c", list[2].clone()), ("d", list[3].clone())],
                            &format!("{:?}", r1), &format!("{:?} / {:?}", r2, r3));
                    return false;
                }
            }
        }
        let (ma, mb) = (pattern_match(p, &a, la), pattern_match(p, &b, la));
        let e: Option<&str> = match (ma, mb) {
            (Some(true), Some(true)) => Some(best(&a, &b, la)),
            (Some(true), _) => Some(&a),
            (_, Some(true)) => Some(&b),
            _ => None,
        };
        let Ok(pat) = Pattern::new(p) else { continue };
        let got = pat.best_match(&a, &b);
        if got != e {
            witness("best_match", &[("pattern", p.into()), ("a", a.clone()), ("b", b.clone())], e.unwrap_or("<none>"), got.unwrap_or("<none>"));
            return false;
        }
        let got2 = pat.best_match(&b, &a);
        if got2 != got {
            witness("best_match", &[("pattern", p.into()), ("a", b.clone()), ("b", a.clone())], got.unwrap_or("<none>"), got2.unwrap_or("<none>"));
            return false;
        }
    }
    true
}

fn search_c18(r: &mut Rng, la: bool, iters: usize) -> bool {
    let bases = ["mktool", "foo-bar", "", "nb", "x-nb1", "é", "-foo", "-", "a--b", "-x-", "R", "a", "9"];
    for _ in 0..iters {
        let name = match r.below(4) {
            0 => gen_version(r),
            1 => format!("{}-{}nb{}", r.pick(&bases), gen_version(r), r.next() % 1_000_000_000_000_000_000),
            _ => format!("{}-{}", r.pick(&bases), gen_version(r)),
        };
        let pn = PkgName::new(&name);
        let (b, v) = split_name(&name);
        // the pkg_summary accessors decompose PKGNAME the same way
        if !name.contains('\n') {
            let mut sm = Summary::new();
            sm.set_pkgname(&name);
            let want = (Some(b.as_str()), Some(v.as_str()));
            let got = (sm.pkgbase(), sm.pkgversion());
            // the statement fixes the accessors only for names whose base and version are both non-empty
            if name.contains('-') && !b.is_empty() && !v.is_empty() && got != want {
                witness("summary_pkgname", &[("name", name.clone())], &format!("{:?}", want), &format!("{:?}", got));
                return false;
            }
        }
        if pn.pkgbase() != b || pn.pkgversion() != v || pn.pkgname() != name {
            witness("pkgname", &[("name", name.clone())], &format!("{}|{}", b, v), &format!("{}|{}", pn.pkgbase(), pn.pkgversion()));
            return false;
        }
        // version ends in nb<digits> (1..18) => that number, and it is the revision the comparison uses
        if let Some(j) = v.rfind("nb") {
            let ds = &v[j + 2..];
            if !ds.is_empty() && ds.len() <= 18 && ds.chars().all(|c| c.is_ascii_digit()) {
                let val: i64 = ds.parse().unwrap();
                if pn.pkgrevision() != Some(val) {
                    witness("pkgrevision", &[("name", name.clone())], &format!("Some({})", val), &format!("{:?}", pn.pkgrevision()));
                    return false;
                }
                if tokens(&v, la).1 != val as i128 {
                    witness("pkgrevision_vs_dewey", &[("name", name.clone())], &val.to_string(), &tokens(&v, la).1.to_string());
                    return false;
                }
                // the real comparison uses it: p-<v> vs the same version with revision+1 / -1
                let prefix = &v[..j];
                let up = format!("p<{}nb{}", prefix, val as i128 + 1);
                if !prefix.contains(['<', '>', '{', '}']) && real_pattern_match(&up, &format!("p-{}", v)) != Some(true) && val < i64::MAX {
                    witness("pattern_match", &[("pattern", up), ("pkg", format!("p-{}", v))], "true", "false");
                    return false;
                }
            }
        }
        // the revision the comparison uses is the LAST nb group (same oracle as C01), also with several groups in one version
        if name.contains('-') && v.matches("nb").count() >= 1 && !v.contains(['<', '>', '{', '}']) {
            let v2 = gen_version(r);
            if !v2.contains(['<', '>', '{', '}']) {
                let (ops, op) = r.pick(OPS);
                let pat = format!("p{}{}", ops, v2);
                let nm = format!("p-{}", v);
                let e = holds(op, cmp3(&tokens(&v, la), &tokens(&v2, la)));
                let a = real_pattern_match(&pat, &nm);
                if a != Some(e) {
                    witness("pattern_match", &[("pattern", pat), ("pkg", nm)], &e.to_string(), &ob(a));
                    return false;
                }
            }
        }
        // the matcher's split of a name agrees with PkgName's: `BASE>=0`-style patterns match exactly on PkgName's base
        if !b.is_empty() && !b.contains(['<', '>', '{', '}']) && name.contains('-') {
            let e = dewey_match(&format!("{}>=0", b), &name, la);
            let a = Dewey::new(&format!("{}>=0", b)).ok().map(|d| d.matches(&name));
            if e != a {
                witness("dewey_match", &[("pattern", format!("{}>=0", b)), ("pkg", name.clone())], &ob(e), &ob(a));
                return false;
            }
            if let Some(k) = b.find('-') {
                let short = &b[..k];
                if !short.is_empty() {
                    let pat = format!("{}>=0", short);
                    let a = Dewey::new(&pat).ok().map(|d| d.matches(&name));
                    if a == Some(true) {
                        witness("dewey_match", &[("pattern", pat), ("pkg", name.clone())], "false", "true");
                        return false;
                    }
                }
            }
        }
        if v.contains("nb") {
        } else if !v.contains("nb") && pn.pkgrevision().is_some() {
            witness("pkgrevision", &[("name", name.clone())], "None", &format!("{:?}", pn.pkgrevision()));
            return false;
        }
    }
    true
}

fn hex(b: &[u8]) -> String {
    b.iter().map(|x| format!("{:02x}", x)).collect()
}
fn gen_plist_line(r: &mut Rng) -> Vec<u8> {
    let files: [&[u8]; 14] = [b"bin/foo", b"a", b"b", b"man/man1/x.1", b"\xa0", b"\x85x", b"caf\xe9", b"x y", b"\xc3\xa0", b"+BUILD_INFO", b"lib/\xf8", b"\x0b", b"z\xa0", b"1"];
    let cmds: [&[u8]; 22] = [b"@cwd", b"@src", b"@cd", b"@exec", b"@unexec", b"@option", b"@mode", b"@owner", b"@group", b"@comment", b"@ignore",
        b"@name", b"@pkgdep", b"@blddep", b"@pkgcfl", b"@pkgdir", b"@dirrm", b"@display", b"@bogus", b"@", b"@ignore", b"@cwd"];
    let args: [&[u8]; 24] = [b"", b" /opt/pkg", b" /opt/pkg/", b" preserve", b" 0644", b"  two  words", b" \xa0dir", b" caf\xe9/", b" \xf0\x9f\x92\x96", b" ",
        b" \t x", b" root", b" pkg-1.0", b" \x85", b" dep>=1", b" /",
        // arguments that END in blanks: kept exactly (only the blanks between command and argument are skipped)
        b" /opt/My Dir ", b" pkg-1.0 ", b" preserve ", b" x\t", b" x\r", b" root  ", b" a b \t", b" \x0c"];
    let blanks: [&[u8]; 7] = [b"", b" ", b"\t", b"  \t ", b"\r", b" \x0c", b"\x0b"];
    match r.below(12) {
        0 | 1 => r.pick(&blanks).to_vec(),
        2 | 3 | 4 => r.pick(&files).to_vec(),
        // bare commands the queries of C15 turn on (runs of @ignore before a file, @cwd changes between files)
        10 => b"@ignore".to_vec(),
        11 => [&b"@ignore"[..], b"@cwd /p", b"@cwd /q/", b"@option preserve", b"@exec x", b"@unexec y"][r.below(6)].to_vec(),
        5 => {
            let mut v = r.pick(&blanks).to_vec();
            v.extend_from_slice(r.pick(&files));
            v
        }
        _ => {
            let mut v = r.pick(&cmds).to_vec();
            v.extend_from_slice(r.pick(&args));
            v
        }
    }
}
fn gen_plist(r: &mut Rng, valid_only: bool) -> Vec<u8> {
    let n = r.below(8);
    let mut t = vec![];
    for i in 0..n {
        let mut l = gen_plist_line(r);
        if valid_only && l.iter().any(|&c| !is_ws(c)) && plist_entry(&l).is_none() {
            l = b"bin/ok".to_vec();
        }
        t.extend_from_slice(&l);
        if i + 1 < n || r.below(2) == 0 {
            t.push(b'\n');
        }
    }
    t
}
fn search_c14(r: &mut Rng, iters: usize) -> bool {
    // command words that are not UTF-8, not ASCII, differently cased, glued to their argument or followed by odd blanks: an '@' line
    // is a command whatever bytes its word has (unknown commands are errors, never files)
    let words: [&[u8]; 14] = [b"@caf\xe9", b"@\xff", b"@cwd\xa0", b"@na\xc3\xa9me", b"@CWD", b"@Name", b"@cwd/opt", b"@\xc3", b"@ignore\xe9", b"@@cwd", b"@cw", b"@cwdd", b"@comment\xff", b"@\x80exec"];
    let tails: [&[u8]; 6] = [b"", b" /dir", b" x", b"\t/dir", b" \xe9", b"  "];
    for w in words {
        for t in tails {
            let mut l = w.to_vec();
            l.extend_from_slice(t);
            let e = plist_entry(&l);
            let a = PlistEntry::from_bytes(&l).ok();
            if e != a {
                witness("plist_entry", &[("hexline", hex(&l))], &format!("{:?}", e), &format!("{:?}", a));
                return false;
            }
        }
    }
    for it in 0..iters {
        // single lines
        let l = gen_plist_line(r);
        if !l.contains(&b'\n') {
            let e = plist_entry(&l);
            let a = PlistEntry::from_bytes(&l).ok();
            if e != a {
                witness("plist_entry", &[("hexline", hex(&l))], &format!("{:?}", e), &format!("{:?}", a));
                return false;
            }
        }
        let t = gen_plist(r, it % 3 != 0);
        let e = plist_entries(&t).map(|v| format!("Plist {{ entries: {:?} }}", v));
        let a = Plist::from_bytes(&t).ok().map(|p| format!("{:?}", p));
        if e != a {
            witness("plist", &[("hextext", hex(&t))], &format!("{:?}", e), &format!("{:?}", a));
            return false;
        }
    }
    true
}
fn plist_views(es: &[PlistEntry]) -> String {
    let kept = kept_files(es);
    let files: Vec<OsString> = kept.iter().map(|&i| if let PlistEntry::File(f) = &es[i] { f.clone() } else { unreachable!() }).collect();
    let mut prefixed = vec![];
    for &i in &kept {
        let mut cwd: Vec<u8> = vec![];
        for e in &es[..i] {
            if let PlistEntry::Cwd(d) = e {
                cwd = d.as_bytes().to_vec();
            }
        }
        if cwd.last() != Some(&b'/') {
            cwd.push(b'/');
        }
        if let PlistEntry::File(f) = &es[i] {
            cwd.extend_from_slice(f.as_bytes());
        }
        prefixed.push(OsString::from_vec(cwd));
    }
    let mut ignore = false;
    let mut inst = vec![];
    let mut uninst = vec![];
    for e in es {
        match e {
            PlistEntry::Ignore => ignore = true,
            PlistEntry::File(_) => {
                if !ignore {
                    inst.push(e);
                    uninst.push(e);
                }
                ignore = false;
            }
            PlistEntry::Cwd(_) | PlistEntry::Mode(_) | PlistEntry::Owner(_) | PlistEntry::Group(_) | PlistEntry::PkgDir(_) => {
                inst.push(e);
                uninst.push(e);
            }
            PlistEntry::Exec(_) => inst.push(e),
            PlistEntry::UnExec(_) | PlistEntry::DirRm(_) => uninst.push(e),
            _ => {}
        }
    }
    let deps: Vec<&str> = es.iter().filter_map(|e| if let PlistEntry::PkgDep(s) = e { Some(s.as_str()) } else { None }).collect();
    let bdeps: Vec<&str> = es.iter().filter_map(|e| if let PlistEntry::BldDep(s) = e { Some(s.as_str()) } else { None }).collect();
    let cfl: Vec<&str> = es.iter().filter_map(|e| if let PlistEntry::PkgCfl(s) = e { Some(s.as_str()) } else { None }).collect();
    let dirs: Vec<&OsString> = es.iter().filter_map(|e| if let PlistEntry::PkgDir(s) = e { Some(s) } else { None }).collect();
    let rmdirs: Vec<&OsString> = es.iter().filter_map(|e| if let PlistEntry::DirRm(s) = e { Some(s) } else { None }).collect();
    let name = es.iter().find_map(|e| if let PlistEntry::Name(s) = e { Some(s.as_str()) } else { None });
    let disp = es.iter().find_map(|e| if let PlistEntry::Display(s) = e { Some(s) } else { None });
    let pres = es.iter().any(|e| matches!(e, PlistEntry::PkgOpt(_)));
    format!("files={:?} prefixed={:?} install={:?} uninstall={:?} depends={:?} build_depends={:?} conflicts={:?} pkgdirs={:?} pkgrmdirs={:?} pkgname={:?} display={:?} preserve={}",
        files, prefixed, inst, uninst, deps, bdeps, cfl, dirs, rmdirs, name, disp, pres)
}
fn real_plist_views(p: &Plist) -> String {
    format!("files={:?} prefixed={:?} install={:?} uninstall={:?} depends={:?} build_depends={:?} conflicts={:?} pkgdirs={:?} pkgrmdirs={:?} pkgname={:?} display={:?} preserve={}",
        p.files(), p.files_prefixed(), p.install_cmds(), p.uninstall_cmds(), p.depends(), p.build_depends(), p.conflicts(), p.pkgdirs(), p.pkgrmdirs(), p.pkgname(), p.display(), p.is_preserve())
}
fn search_c15(r: &mut Rng, iters: usize) -> bool {
    for _ in 0..iters {
        let t = gen_plist(r, true);
        let (Some(es), Ok(p)) = (plist_entries(&t), Plist::from_bytes(&t)) else { continue };
        let e = plist_views(&es);
        let a = real_plist_views(&p);
        if e != a {
            witness("plist_views", &[("hextext", hex(&t))], &e, &a);
            return false;
        }
    }
    true
}
fn gen_value(r: &mut Rng) -> String {
    let parts = ["x", "1.0", "é", "a=b", "", "日本", " sp ", "-", "lib>=2", "\u{10348}", "%", "="];
    let mut s = String::new();
    for _ in 0..r.below(4) { s.push_str(r.pick(&parts)); }
    s
}
fn gen_entry_text(r: &mut Rng, fault: u8) -> String {
    // a complete entry in canonical order, optional extras, optionally one injected fault
    let mut lines: Vec<String> = vec![];
    for (name, kind) in SUM_VARS {
        let req = SUM_REQUIRED.contains(name);
        if !req && r.below(2) == 0 { continue; }
        match kind {
            0 => lines.push(format!("{}={}", name, gen_value(r))),
            1 => lines.push(format!("{}={}", name, (r.next() as i64) >> r.below(60))),
            _ => for _ in 0..(1 + r.below(3)) { lines.push(format!("{}={}", name, gen_value(r))); },
        }
    }
    match fault {
        1 => { let k = r.below(lines.len()); lines[k] = lines[k].replace('=', ":"); if lines[k].contains('=') { lines[k] = "NOEQ".into(); } }
        2 => { let k = r.below(lines.len()); lines[k] = format!("X{}", lines[k]); }
        3 => { lines.push("FILE_SIZE=12x".into()); }
        4 => { let req = r.pick(SUM_REQUIRED); lines.retain(|l| !l.starts_with(&format!("{}=", req))); }
        5 => { let k = r.below(lines.len()); let l = lines[k].clone(); lines.insert(r.below(lines.len()), l); }
        6 => { let n = lines.len(); let a = r.below(n); let b = r.below(n); lines.swap(a, b); }
        _ => {}
    }
    let mut t = lines.join("\n");
    t.push('\n');
    t
}
fn real_summary(t: &str) -> Result<String, String> {
    match Summary::from_str(t) {
        Ok(s) => Ok(format!("{}", s)),
        Err(e) => Err(match e {
            pkgsrc::summary::SummaryError::ParseLine(_) => "ParseLine".into(),
            pkgsrc::summary::SummaryError::ParseVariable(_) => "ParseVariable".into(),
            pkgsrc::summary::SummaryError::ParseInt(_) => "ParseInt".into(),
            pkgsrc::summary::SummaryError::Incomplete(m) => format!("Incomplete({})", format!("{}", m).replace("missing required variable ", "")),
            _ => "other".into(),
        }),
    }
}
fn oracle_summary(t: &str) -> Result<String, String> {
    match summary_parse(t) {
        Ok(e) => Ok(summary_render(&e)),
        Err(SErr::Incomplete(v)) => Err(format!("Incomplete({})", v)),
        Err(e) => Err(format!("{:?}", e)),
    }
}
fn search_c08(r: &mut Rng, iters: usize) -> bool {
    for it in 0..iters {
        let f = r.below(8) as u8;
        let t = gen_entry_text(r, f);
        let e = oracle_summary(&t);
        let a = real_summary(&t);
        if e != a {
            witness("summary_parse", &[("text", t)], &format!("{:?}", e), &format!("{:?}", a));
            return false;
        }
        if f == 3 || f == 0 {
            // the first offending line decides, wherever it stands: a malformed integer FOLLOWED by a well-formed line of the same
            // variable, an unknown variable or a line without '=' in the middle (position derived from the text: no extra draw)
            let mut ls: Vec<String> = t.lines().filter(|l| *l != "FILE_SIZE=12x").map(|l| l.to_string()).collect();
            let k = t.len() % (ls.len() + 1);
            let bad = ["FILE_SIZE=12x", "SIZE_PKG=", "SIZE_PKG=1e3", "FILE_SIZE= 7", "SIZE_PKG=9223372036854775808", "NOPE=1", "no equals sign", "FILE_SIZE=0x10"][t.len() / 7 % 8];
            ls.insert(k, bad.to_string());
            if t.len() % 2 == 0 { ls.push("FILE_SIZE=42".to_string()); ls.push("SIZE_PKG=43".to_string()); }
            let mut t2 = ls.join("\n");
            t2.push('\n');
            let (e2, a2) = (oracle_summary(&t2), real_summary(&t2));
            if e2 != a2 {
                witness("summary_parse", &[("text", t2)], &format!("{:?}", e2), &format!("{:?}", a2));
                return false;
            }
        }
        if let Ok(s) = Summary::from_str(&t) {
            if !s.is_completed() {
                witness("summary_completed", &[("text", t)], "true", "false");
                return false;
            }
            // every accessor returns its own variable's value(s): the 23 getters read one by one spell the canonical text again
            // (the parsed text may carry repeated / reordered lines: compare with the oracle's rendering of the final values)
            if let Ok(e) = summary_parse(&t) {
                let (want, got) = (summary_render(&e), more::summary_getters(&s));
                if want != got {
                    witness("summary_getters", &[("text", t.clone())], &want, &got);
                    return false;
                }
            }
            // is_completed() of a value assembled through the API: true exactly when all eleven required variables are set - checked
            // for every way of leaving one variable out and for random subsets (own random stream)
            if let Ok(e) = summary_parse(&t) {
                let mut r2 = Rng::new(0xC08_0000 + it as u64);
                let single = if r2.below(2) == 0 { Some(r2.below(e.len())) } else { None };
                let kept: Vec<usize> = (0..e.len()).filter(|&i| match single { Some(j) => i != j, None => r2.below(5) != 0 }).collect();
                let script: String = kept.iter().map(|i| format!("a{}.0", i)).collect::<Vec<_>>().join(" ");
                let want = SUM_REQUIRED.iter().all(|rq| kept.iter().any(|&i| e[i].0 == *rq));
                let got = summary_completed_after(&e, &script);
                if got != want {
                    witness("summary_api_completed", &[("text", t.clone()), ("script", script)], &want.to_string(), &got.to_string());
                    return false;
                }
            }
        }
    }
    true
}
/// C08: set the listed entries of `e` through the API on a fresh Summary and ask is_completed()
fn summary_completed_after(e: &[(String, Vec<String>)], script: &str) -> bool {
    let mut api = Summary::new();
    for tok in script.split(' ').filter(|t| !t.is_empty()) {
        if let Some(rest) = tok.strip_prefix('a') {
            let (i, m) = rest.split_once('.').unwrap();
            let (i, m): (usize, u8) = (i.parse().unwrap(), m.parse().unwrap());
            more::api_apply(&mut api, &e[i].0, &e[i].1, m);
        }
    }
    api.is_completed()
}

const MULTI: [&str; 6] = ["CONFLICTS", "DEPENDS", "DESCRIPTION", "PROVIDES", "REQUIRES", "SUPERSEDES"];
/// C07: run a call script on a fresh Summary - `a<i>.<mode>` sets entry i of `e` through the API (mode = one of the equivalent call
/// sequences of api_apply), `x<k>` pushes one more value to multi-line variable k, `p` prints and compares with the canonical text
/// of the values set so far.  Returns the first disagreeing print: (token index, expected, actual).
fn summary_script(e: &[(String, Vec<String>)], script: &str) -> Option<(usize, String, String)> {
    let mut api = Summary::new();
    let mut cur: BTreeMap<usize, (String, Vec<String>)> = BTreeMap::new();
    let pos = |n: &str| SUM_VARS.iter().position(|(k, _)| *k == n).unwrap();
    for (ti, tok) in script.split(' ').enumerate() {
        if tok == "p" {
            let want = summary_render(&cur.values().cloned().collect::<Vec<_>>());
            let got = format!("{}", api);
            if got != want { return Some((ti, want, got)); }
        } else if let Some(rest) = tok.strip_prefix('a') {
            let (i, m) = rest.split_once('.').unwrap();
            let (i, m): (usize, u8) = (i.parse().unwrap(), m.parse().unwrap());
            more::api_apply(&mut api, &e[i].0, &e[i].1, m);
            cur.insert(pos(&e[i].0), e[i].clone());
        } else if let Some(k) = tok.strip_prefix('x') {
            let name = MULTI[k.parse::<usize>().unwrap() % 6];
            more::api_push(&mut api, name, "extra value");
            cur.entry(pos(name)).or_insert((name.to_string(), vec![])).1.push("extra value".to_string());
        }
    }
    None
}
fn search_c07(r: &mut Rng, iters: usize) -> bool {
    for it in 0..iters {
        // canonical text -> parse -> print reproduces it; print -> parse gives the same values
        let t = gen_entry_text(r, 0);
        let Ok(s) = Summary::from_str(&t) else { witness("summary_parse", &[("text", t)], "Ok", "Err"); return false };
        let printed = format!("{}", s);
        if printed != t {
            witness("summary_roundtrip", &[("text", t)], "identical text", &printed);
            return false;
        }
        // the same final values reached through different orders / repetitions of set_* and push_* calls print the same text
        if let Ok(e) = summary_parse(&t) {
            let mut order: Vec<usize> = (0..e.len()).collect();
            for i in (1..order.len()).rev() { let j = r.below(i + 1); order.swap(i, j); }
            let mut api = Summary::new();
            for &i in &order { more::api_apply(&mut api, &e[i].0, &e[i].1, r.below(12) as u8); }
            let printed = format!("{}", api);
            if printed != t {
                witness("summary_api_print", &[("text", t.clone())], &t, &printed);
                return false;
            }
            // observers between mutators: the printed form after every prefix of the call history (a cached or otherwise
            // stale rendering shows only when printing is interleaved with the setters / pushers).  Own random stream.
            let mut r2 = Rng::new(0xC07_0000 + it as u64);
            let mut script = String::new();
            for &i in &order { script.push_str(&format!("a{}.{} ", i, r2.below(12))); if r2.below(2) == 0 { script.push_str("p "); } }
            script.push_str(&format!("x{} p x{} p", r2.below(6), r2.below(6)));
            if let Some((at, want, got)) = summary_script(&e, &script) {
                let upto: Vec<&str> = script.split(' ').take(at + 1).collect();
                witness("summary_api_steps", &[("text", t.clone()), ("script", upto.join(" "))], &want, &got);
                return false;
            }
        }
        // shuffled / duplicated input lines of the same final values print the same (history independence)
        let t2 = gen_entry_text(r, 6);
        if let (Ok(a), Ok(e)) = (Summary::from_str(&t2), summary_parse(&t2)) {
            let printed = format!("{}", a);
            if printed != summary_render(&e) {
                witness("summary_print", &[("text", t2)], &summary_render(&e), &printed);
                return false;
            }
            match Summary::from_str(&printed) {
                Ok(b) if format!("{}", b) == printed => {}
                _ => { witness("summary_reparse", &[("text", printed.clone())], "same", "different"); return false; }
            }
        }
    }
    true
}
fn stream_run(chunks: &[&[u8]]) -> Result<String, String> {
    let mut st = SummaryStream::new();
    for (k, c) in chunks.iter().enumerate() {
        // observers between the writes (every other chunk): reading or printing the collection must not disturb later writes, and
        // a rendering computed early must not be what is printed at the end
        if k % 2 == 1 { let _ = st.entries().len(); let _ = format!("{}", st); }
        match st.write(c) {
            Ok(n) if n == c.len() => {}
            Ok(n) => return Err(format!("short write {} of {}", n, c.len())),
            Err(e) => return Err(format!("{:?} after {} entries", e.kind(), st.entries().len())),
        }
    }
    Ok(format!("{}", st))
}
fn search_c09(r: &mut Rng, iters: usize) -> bool {
    for it in 0..iters / 20 {
        let n = 1 + r.below(3);
        let bad_at = if it % 4 == 0 { Some(r.below(n)) } else { None };
        let mut stream = String::new();
        let mut good_before = 0;
        for i in 0..n {
            let f = if Some(i) == bad_at { 1 + r.below(4) as u8 } else { 0 };
            if bad_at.is_none() || i < bad_at.unwrap() { good_before += 1; }
            stream.push_str(&gen_entry_text(r, f));
            stream.push('\n');
        }
        let bytes = stream.as_bytes();
        let whole = stream_run(&[bytes]);
        if bad_at.is_none() {
            if whole.as_deref() != Ok(stream.as_str()) {
                witness("stream_print", &[("hexstream", hex(bytes)), ("cuts", "".into())], "reproduces the stream", &format!("{:?}", whole));
                return false;
            }
        }
        // every single cut; a few double cuts; byte at a time
        let mut partitions: Vec<Vec<usize>> = (1..bytes.len()).map(|c| vec![c]).collect();
        for _ in 0..20 { let a = 1 + r.below(bytes.len() - 1); let b = 1 + r.below(bytes.len() - 1); partitions.push(vec![a.min(b), a.max(b)]); }
        partitions.push((1..bytes.len()).collect());
        for cuts in partitions {
            let mut chunks: Vec<&[u8]> = vec![];
            let mut prev = 0;
            for &c in &cuts { if c > prev { chunks.push(&bytes[prev..c]); prev = c; } }
            chunks.push(&bytes[prev..]);
            let got = stream_run(&chunks);
            let ok = match (&whole, &got) {
                (Ok(a), Ok(b)) => a == b,
                (Err(_), Err(g)) => g.starts_with("InvalidData") && g.ends_with(&format!("after {} entries", good_before)),
                _ => false,
            };
            if !ok {
                witness("stream_chunks", &[("hexstream", hex(bytes)), ("cuts", format!("{:?}", cuts))], &format!("{:?}", whole), &format!("{:?}", got));
                return false;
            }
        }
    }
    true
}
fn real_dinfo(d: &Distinfo) -> DInfo {
    let conv = |e: &&Entry| DEntry { name: e.filename.as_os_str().as_bytes().to_vec(), size: e.size,
        sums: e.checksums.iter().map(|c| (c.digest.to_string(), c.hash.clone())).collect(), patch: e.filetype == pkgsrc::distinfo::EntryType::Patchfile };
    DInfo { rcsid: d.rcsid().map(|s| s.as_bytes().to_vec()), dist: d.distfiles().iter().map(conv).collect(), patch: d.patchfiles().iter().map(conv).collect() }
}
/// C11: every recorded file is found again under exactly its name, in its own table only (get_distfile / get_patchfile)
fn lookup_report(d: &Distinfo) -> String {
    let mut o = String::new();
    let same = |a: Option<&Entry>, e: &Entry| match a { None => "none", Some(x) if x.filename == e.filename && x.checksums.len() == e.checksums.len() && x.size == e.size => "same", Some(_) => "other" };
    for e in d.distfiles() { o.push_str(&format!("D:{} {} {};", hex(e.filename.as_os_str().as_bytes()), same(d.get_distfile(&e.filename), e), same(d.get_patchfile(&e.filename), e))); }
    for e in d.patchfiles() { o.push_str(&format!("P:{} {} {};", hex(e.filename.as_os_str().as_bytes()), same(d.get_distfile(&e.filename), e), same(d.get_patchfile(&e.filename), e))); }
    o.push_str(&format!("absent:{}{}", d.get_distfile("no/such-file").is_some(), d.get_patchfile("patch-no-such").is_some()));
    o
}
fn lookup_expect(i: &DInfo) -> String {
    let mut o = String::new();
    for e in &i.dist { o.push_str(&format!("D:{} same none;", hex(&e.name))); }
    for e in &i.patch { o.push_str(&format!("P:{} none same;", hex(&e.name))); }
    o.push_str("absent:falsefalse");
    o
}
const DNAMES: &[&[u8]] = &[b"foo-1.0.tar.gz", b"patch-aa", b"patch-local-x", b"emul-linux-patch-1", b"emul-patch-x", b"sub/dir/bar.tgz", b"foo\xc3\xa0bar", b"x\xc3\x85y",
    b"x\xe9y", b"patch-src_caf\xe9.c", b"patch-ab.orig", b"patch-x.tar.y", b"a", b"a//b", b"a/b", b"lib(3).pdf", b"patch-zz~", b"\xa0", b"n\x85", b"patch-ac", b"proj/foo-1.0.tar.gz",
    b"c#-mode-0.9.tar.gz", b"patch-src_c#.el", b"#x", b"a$b", b"x=y", b"a:b", b"(p)", b"a)b(c", b"q\\r", b"p%20q", b"emul-patch-1.0.tgz", b"emul-x-patch-2", b"patch-", b"a/./b", b"d/"];
/// a file name of arbitrary non-whitespace bytes (printable specials, high bytes), sometimes with patch-like shapes
fn gen_dname(r: &mut Rng) -> Vec<u8> {
    if r.below(3) > 0 { return r.pick(DNAMES).to_vec(); }
    let alpha: &[u8] = b"ab1-._/#$=:()[]{}%+~@!,;'\"\\\xc3\xa0\xe9\x85\xa0\xff";
    let mut n: Vec<u8> = match r.below(4) { 0 => b"patch-".to_vec(), 1 => b"emul-".to_vec(), _ => vec![] };
    for _ in 0..1 + r.below(7) { n.push(alpha[r.below(alpha.len())]); }
    // the exclusion suffixes of the patch classification, each on patch-like and ordinary names (derived from the length: no extra draw)
    match n.len() % 9 { 0 => n.extend_from_slice(b".rej"), 1 => n.extend_from_slice(b".orig"), 2 => n.push(b'~'), 3 => n.extend_from_slice(b".tar.gz"), 4 => { let mut m = b".rej".to_vec(); m.extend_from_slice(&n); n = m; } _ => {} }
    n
}
fn gen_dline(r: &mut Rng) -> Vec<u8> {
    let name_v = gen_dname(r);
    let name: &[u8] = &name_v;
    let ws: [&[u8]; 4] = [b" ", b"  ", b"\t", b" \t "];
    let lead: [&[u8]; 3] = [b"", b"  ", b"\t"];
    let mut l = r.pick(&lead).to_vec();
    match r.below(12) {
        0 => l.extend_from_slice(b"# a comment (x) = y"),
        1 => {}
        2 => l.extend_from_slice(r.pick(&[b"$NetBSD: distinfo,v 1.2 2024/01/01 00:00:00 x\xe9 Exp $".as_slice(), b"$NetBSD: a\rb $", b"$NetBSD: # not a comment $", b"$NetBSD: x $\r", b"$NetBSD$", b"$NetBSD:x $"])),
        3 => l.extend_from_slice(r.pick(&[b"SHA1".as_slice(), b"SHA1 (foo)", b"Size (foo) = 12x bytes", b"CRC32 (foo) = 1234", b"SHA1 foo = abc", b"SHA1 (foo) XX abc", b"Size (foo) = -1 bytes", b"\xff\xfe (foo) = 1", b"SHA1 (foo = abc", b"=", b"SHA1 () = x", b"SHA1 (foo) =", b"Size (foo) =", b"SHA1 (bar) = ", b"( ) = x", b"SHA1 ( = x", b"SHA1 ) = x", b"Size ("])),
        4 | 5 => { l.extend_from_slice(b"Size"); l.extend_from_slice(r.pick(&ws)); l.push(b'('); l.extend_from_slice(name); l.push(b')'); l.extend_from_slice(r.pick(&ws)); l.push(b'='); l.extend_from_slice(r.pick(&ws));
                   l.extend_from_slice(format!("{}", [0u64, 12, 4096, u64::MAX][r.below(4)]).as_bytes()); l.extend_from_slice(b" bytes"); }
        _ => { let a = r.pick(&["SHA1", "sha256", "BLAKE2s", "RMD160", "MD5", "SHA512", "Sha1"]); l.extend_from_slice(a.as_bytes()); l.extend_from_slice(r.pick(&ws)); l.push(b'('); l.extend_from_slice(name); l.push(b')');
               l.extend_from_slice(r.pick(&ws)); l.push(b'='); l.extend_from_slice(r.pick(&ws)); l.extend_from_slice(r.pick(&[b"abc123".as_slice(), b"00ff", b"deadbeef"]));
               // the hash is opaque text: '#' in or after it does not make the line a comment, its case is kept (derived from the name: no extra draw)
               match name.len() % 7 { 0 => l.push(b'#'), 1 => l.extend_from_slice(b"#ab"), 2 => l.extend_from_slice(b"ABCdef"), _ => {} } }
    }
    l
}
fn search_c11(r: &mut Rng, iters: usize) -> bool {
    for _ in 0..iters {
        let mut t = vec![];
        for _ in 0..r.below(9) { t.extend_from_slice(&gen_dline(r)); t.push(b'\n'); }
        let e = distinfo_parse(&t);
        let a = real_dinfo(&Distinfo::from_bytes(&t));
        if e != a {
            witness("distinfo_parse", &[("hextext", hex(&t))], &format!("{:?}", e), &format!("{:?}", a));
            return false;
        }
        let (le, la) = (lookup_expect(&e), lookup_report(&Distinfo::from_bytes(&t)));
        if le != la {
            witness("distinfo_lookup", &[("hextext", hex(&t))], &le, &la);
            return false;
        }
    }
    true
}
fn gen_canonical(r: &mut Rng) -> DInfo {
    let mut d = DInfo::default();
    if r.below(4) > 0 {
        d.rcsid = Some(r.pick(&[b"$NetBSD: distinfo,v 1.80 2024/05/27 23:27:10 r\xe9 Exp $".as_slice(), b"$NetBSD: with\rcr $", b"$NetBSD: trailing cr $\r", b"$NetBSD: # hash \t tab $", b"$NetBSD: \xff\x00 $"]).to_vec());
    }
    let mut used: Vec<Vec<u8>> = vec![];
    for _ in 0..r.below(5) {
        let name = gen_dname(r);
        if name.is_empty() || used.iter().any(|u| PathBuf::from(std::ffi::OsStr::from_bytes(u)) == PathBuf::from(std::ffi::OsStr::from_bytes(&name))) { continue; }
        used.push(name.clone());
        let patch = is_patch_name(&name);
        let mut sums = vec![];
        for a in DIGESTS { if r.below(2) == 0 { let h = r.next(); sums.push((a.to_string(), match h % 5 { 0 => format!("{:X}", h), 1 => format!("{:x}AbC", h), _ => format!("{:x}", h) })); } }
        if sums.is_empty() { sums.push(("SHA1".to_string(), "ab".to_string())); }
        // checksum lines keep the order they were written in, whatever that order is (derived from the name: no extra random draw)
        match name.iter().map(|&b| b as usize).sum::<usize>() % 4 { 1 => sums.reverse(), 2 => sums.rotate_left(1), 3 if sums.len() > 2 => sums.swap(0, 2), _ => {} }
        let e = DEntry { name, size: if patch { None } else { Some([0u64, 1, 77, u64::MAX][r.below(4)]) }, sums, patch };
        if patch { d.patch.push(e) } else { d.dist.push(e) }
    }
    d
}
fn search_c10(r: &mut Rng, iters: usize) -> bool {
    for _ in 0..iters {
        let d = gen_canonical(r);
        let text = distinfo_print(&d);
        let parsed = Distinfo::from_bytes(&text);
        let back = parsed.as_bytes();
        if back != text {
            witness("distinfo_roundtrip", &[("hextext", hex(&text))], &hex(&text), &hex(&back));
            return false;
        }
        // each entry written on its own (Entry::as_bytes) is that entry's block of the file: its checksum lines in order, then its size line
        let per_entry: Vec<u8> = parsed.distfiles().iter().chain(parsed.patchfiles().iter()).flat_map(|e| e.as_bytes()).collect();
        let mut body = DInfo { rcsid: None, dist: d.dist.clone(), patch: d.patch.clone() };
        body.rcsid = None;
        let want_body = distinfo_print(&body)[b"$NetBSD$\n\n".len()..].to_vec();
        if per_entry != want_body {
            witness("distinfo_entries_written", &[("hextext", hex(&text))], &hex(&want_body), &hex(&per_entry));
            return false;
        }
        // API-assembled -> write -> parse
        let mut api = Distinfo::new();
        if let Some(rc) = &d.rcsid { api.set_rcsid(&OsString::from_vec(rc.clone())); }
        for e in d.dist.iter().chain(d.patch.iter()) {
            let sums: Vec<Checksum> = e.sums.iter().map(|(a, h)| Checksum::new(a.parse::<Digest>().unwrap(), h.clone())).collect();
            let p = PathBuf::from(std::ffi::OsStr::from_bytes(&e.name));
            // the entry's kind is decided by its file NAME; the path it was read from (a directory, another spelling) is irrelevant
            let fp = match r.below(3) { 0 => p.clone(), 1 => PathBuf::from("/usr/pkgsrc/distfiles"), _ => PathBuf::from("work/.extract/") };
            api.insert(Entry::new(&p, &fp, sums, e.size));
            // observers between the inserts: writing or listing the half-assembled value must not influence what is written at the end
            if e.name.len() % 2 == 1 { let _ = api.as_bytes(); let _ = api.distfiles().len() + api.patchfiles().len(); let _ = api.get_distfile(&p).is_some(); }
        }
        let written = api.as_bytes();
        let re = real_dinfo(&Distinfo::from_bytes(&written));
        let mut want = d.clone();
        if want.rcsid.is_none() { want.rcsid = None; }
        // the default "$NetBSD$" line is not an RcsId line ("$NetBSD: " prefix required): rcsid stays None on re-parse
        if re.dist != want.dist || re.patch != want.patch || (want.rcsid.is_some() && re.rcsid != want.rcsid) {
            witness("distinfo_api_roundtrip", &[("hextext", hex(&written))], &format!("{:?}", want), &format!("{:?}", re));
            return false;
        }
    }
    true
}
fn search_c12(r: &mut Rng, iters: usize) -> bool {
    let dir = std::env::temp_dir().join(format!("verif-c12-{}", std::process::id()));
    let _ = std::fs::create_dir_all(dir.join("proj"));
    let mut ok = true;
    'outer: for it in 0..(iters / 100).max(12) {
        let content: Vec<u8> = match r.below(4) { 0 => vec![], 1 => b"hello\n".to_vec(), 2 => r.pick(&[b"--- a\n+++ b\n$NetBSD: x $\n@@ x\n $NetBSD$ body\nline".as_slice(), b"+# $Id$ $NetBSD: y $\n+CFLAGS=${CFLAGS} # $NetBSD$\nkeep $ this\n", b"$NetBSD\n$NetBS\nx$NetBSD: z $y\n\n$\n"]).to_vec(), _ => (0..r.below(300)).map(|_| r.next() as u8).collect() };
        for (fname, sub) in [("foo-1.0.tar.gz", false), ("patch-aa", false), ("foo-1.0.tar.gz", true)] {
            let rel = if sub { format!("proj/{}", fname) } else { fname.to_string() };
            let path = dir.join(&rel);
            std::fs::write(&path, &content).unwrap();
            let is_patch = fname.starts_with("patch-");
            let mut di = Distinfo::new();
            let mut sums = vec![];
            for a in DIGESTS {
                let dg: Digest = a.parse().unwrap();
                // patch hash (statement): plain hash of the input with every line containing "$NetBSD" removed,
                // a final unterminated line counting as terminated -- computed here with the PLAIN hash only
                let filtered: Vec<u8> = {
                    let mut o = vec![];
                    let mut lines: Vec<&[u8]> = content.split(|&c| c == b'\n').collect();
                    if content.is_empty() || content.ends_with(b"\n") { lines.pop(); }
                    for l in lines { if !l.windows(7).any(|w| w == b"$NetBSD") { o.extend_from_slice(l); o.push(b'\n'); } }
                    o
                };
                let h = if is_patch { dg.hash_file(&mut &filtered[..]).unwrap() } else { dg.hash_file(&mut &content[..]).unwrap() };
                sums.push(Checksum::new(dg, h));
            }
            // a longer recorded name sharing the tail, listed FIRST, must not win over the shorter one
            if !sub && !is_patch { di.insert(Entry::new(format!("proj/{}", fname), format!("proj/{}", fname), vec![Checksum::new(Digest::SHA1, "00".into())], Some(1))); }
            let corrupt = it % 3;
            let mut rec = sums.iter().map(|c| Checksum::new(c.digest, c.hash.clone())).collect::<Vec<_>>();
            if corrupt == 1 {
                let h = &mut rec[r.below(6)].hash;
                match r.below(5) {
                    0 => { if r.below(2) == 0 { h.pop(); } else { *h = h.to_uppercase(); } }   // truncated / upper-cased hex letters
                    1 => { h.clear(); }                                // empty placeholder
                    2 => { h.push('0'); }                              // extra character
                    3 => { let k = r.below(h.len()); let c = if h.as_bytes()[k] == b'0' { "1" } else { "0" }; h.replace_range(k..k + 1, c); }
                    _ => { let c = if h.ends_with('0') { '1' } else { '0' }; h.pop(); h.push(c); }
                }
            }
            let recsize = if corrupt == 2 { content.len() as u64 + 1 } else { content.len() as u64 };
            if sub {
                // both `proj/NAME` (listed first, bogus values) and `NAME` are recorded: the SHORTEST trailing sub-path must be used
                di.insert(Entry::new(&rel, &rel, vec![Checksum::new(Digest::SHA1, "00".into())], Some(recsize + 7)));
                di.insert(Entry::new(fname, fname, rec, Some(recsize)));
            } else {
                di.insert(Entry::new(&rel, &rel, rec, if is_patch { None } else { Some(recsize) }));
            }
            if !is_patch {
                let e: Result<u64, String> = if corrupt == 2 { Err(format!("Size({},{})", recsize, content.len())) } else { Ok(recsize) };
                let a = match di.verify_size(&path) { Ok(n) => Ok(n), Err(DistinfoError::Size(_, x, y)) => Err(format!("Size({},{})", x, y)), Err(o) => Err(format!("{:?}", o)) };
                if e != a { witness("verify_size", &[("file", rel.clone()), ("hexcontent", hex(&content)), ("recorded", recsize.to_string())], &format!("{:?}", e), &format!("{:?}", a)); ok = false; break 'outer; }
            } else if !matches!(di.verify_size(&path), Err(DistinfoError::MissingSize(_))) {
                witness("verify_size", &[("file", rel.clone()), ("hexcontent", hex(&content)), ("recorded", "none".into())], "MissingSize", "other"); ok = false; break 'outer;
            }
            let res = di.verify_checksums(&path);
            for (k, rr) in res.iter().enumerate() {
                let good = di.find_entry(&path).map(|e| e.checksums[k].hash == sums[k].hash).unwrap_or(false);
                let fine = match rr { Ok(d) => good && *d == sums[k].digest, Err(DistinfoError::Checksum(_, d, exp, act)) => !good && *d == sums[k].digest && *act == sums[k].hash && *exp != sums[k].hash, _ => false };
                if !fine { witness("verify_checksum", &[("file", rel.clone()), ("hexcontent", hex(&content)), ("algo", DIGESTS[k].into()), ("corrupt", corrupt.to_string())], "Ok iff recorded == digest", &format!("{:?}", rr)); ok = false; break 'outer; }
            }
            if res.len() != 6 { witness("verify_checksum", &[("file", rel.clone()), ("hexcontent", hex(&content)), ("algo", "all".into()), ("corrupt", corrupt.to_string())], "6 results", &res.len().to_string()); ok = false; break 'outer; }
            // the same object, other paths with the same final component: recorded under another sub-directory or not at all
            if !sub {
                let other = dir.join("elsewhere").join(fname);
                let _ = std::fs::create_dir_all(dir.join("elsewhere"));
                let _ = std::fs::write(&other, b"different content");
                let first = di.find_entry(&path).map(|e| e.filename.clone()).ok();
                let second = di.find_entry(&other).map(|e| e.filename.clone()).ok();
                let again = di.find_entry(&path).map(|e| e.filename.clone()).ok();
                // `elsewhere/NAME` is not recorded; its shortest recorded trailing sub-path is NAME itself (recorded), so both give NAME
                if first != again || second != first {
                    witness("find_entry_sequence", &[("file", rel.clone())], &format!("{:?}", first), &format!("{:?} then {:?}", second, again)); ok = false; break 'outer;
                }
                let unrec = dir.join("elsewhere").join("never-recorded.bin");
                if di.find_entry(&unrec).is_ok() || !matches!(di.verify_size(&unrec), Err(DistinfoError::NotFound)) {
                    witness("find_entry_sequence", &[("file", "elsewhere/never-recorded.bin".into())], "NotFound", "found"); ok = false; break 'outer;
                }
            } else {
                // proj/NAME and NAME are both recorded; a lookup of other/NAME (not recorded as such) must give NAME, before and after looking up proj/NAME
                let other = dir.join("other").join(fname);
                let a1 = di.find_entry(&other).map(|e| e.filename.clone()).ok();
                let _ = di.find_entry(&path);
                let a2 = di.find_entry(&other).map(|e| e.filename.clone()).ok();
                if a1 != a2 {
                    witness("find_entry_sequence", &[("file", rel.clone())], &format!("{:?}", a1), &format!("{:?}", a2)); ok = false; break 'outer;
                }
            }
            if !matches!(di.verify_size(dir.join("nope/zzz")), Err(DistinfoError::NotFound)) { witness("verify_size", &[("file", "nope/zzz".into()), ("hexcontent", "".into()), ("recorded", "".into())], "NotFound", "other"); ok = false; break 'outer; }
        }
    }
    if ok {
        // a distinfo PARSED from text (size line before the checksum line, and the other way round) verifies a patch with '$NetBSD' lines
        let content: &[u8] = b"$NetBSD: patch-zz,v 1.1 $\n--- a\n+++ b\n@@ -1 +1 @@\n-x\n+y $NetBSD$\nkept\n";
        let filtered: &[u8] = b"--- a\n+++ b\n@@ -1 +1 @@\n-x\nkept\n";
        std::fs::write(dir.join("patch-zz"), content).unwrap();
        let h = Digest::SHA1.hash_file(&mut &filtered[..]).unwrap();
        for text in [format!("Size (patch-zz) = {} bytes\nSHA1 (patch-zz) = {}\n", content.len(), h), format!("SHA1 (patch-zz) = {}\nSize (patch-zz) = {} bytes\n", h, content.len())] {
            let di = Distinfo::from_bytes(text.as_bytes());
            let r = di.verify_checksum(dir.join("patch-zz"), Digest::SHA1);
            if !matches!(r, Ok(Digest::SHA1)) {
                witness("verify_parsed_patch", &[("hextext", hex(text.as_bytes()))], "Ok(SHA1)", &format!("{:?}", r.map_err(|e| e.to_string())));
                ok = false;
                break;
            }
        }
    }
    if ok {
        // the same file name recorded under two sub-directories, and a third directory that is not recorded: each lookup is decided
        // by its own path, whatever was looked up before on the same object
        let mut di = Distinfo::new();
        for sub in ["one", "two"] {
            let rel = format!("{}/data.bin", sub);
            let _ = std::fs::create_dir_all(dir.join(sub));
            let content = format!("content of {}", sub);
            std::fs::write(dir.join(&rel), &content).unwrap();
            di.insert(Entry::new(&rel, &rel, vec![Checksum::new(Digest::SHA1, Digest::SHA1.hash_str(&content).unwrap())], Some(content.len() as u64)));
        }
        let _ = std::fs::create_dir_all(dir.join("three"));
        std::fs::write(dir.join("three/data.bin"), b"x").unwrap();
        let name_of = |p: &std::path::Path| di.find_entry(p).map(|e| e.filename.to_string_lossy().into_owned()).unwrap_or_else(|_| "NotFound".into());
        let seq = [("one/data.bin", "one/data.bin"), ("two/data.bin", "two/data.bin"), ("three/data.bin", "NotFound"), ("one/data.bin", "one/data.bin"), ("three/data.bin", "NotFound")];
        for (look, want) in seq {
            let got = name_of(&dir.join(look));
            let sz = di.verify_size(dir.join(look));
            let sz_ok = if want == "NotFound" { matches!(sz, Err(DistinfoError::NotFound)) } else { sz.is_ok() };
            let ck = di.verify_checksum(dir.join(look), Digest::SHA1);
            let ck_ok = if want == "NotFound" { matches!(ck, Err(DistinfoError::NotFound)) } else { ck.is_ok() };
            if got != want || !sz_ok || !ck_ok {
                witness("find_entry_sequence", &[("file", look.to_string())], want, &format!("{} size_ok={} checksum_ok={}", got, sz_ok, ck_ok));
                ok = false;
                break;
            }
        }
    }
    let _ = std::fs::remove_dir_all(&dir);
    ok
}
fn unhexb(s: &str) -> Vec<u8> {
    (0..s.len() / 2).map(|i| u8::from_str_radix(&s[2 * i..2 * i + 2], 16).unwrap()).collect()
}

fn unhex(s: &str) -> String {
    let b: Vec<u8> = (0..s.len() / 2).map(|i| u8::from_str_radix(&s[2 * i..2 * i + 2], 16).unwrap()).collect();
    String::from_utf8_lossy(&b).into_owned()
}

fn run_witness(args: &[String]) -> i32 {
    let kind = args[0].as_str();
    let mut f: BTreeMap<String, String> = BTreeMap::new();
    for a in &args[1..] {
        if let Some((k, v)) = a.split_once('=') {
            f.insert(k.to_string(), unhex(v));
        }
    }
    let g = |k: &str| f.get(k).cloned().unwrap_or_default();
    let expected = g("expected");
    let actual = match kind {
        "pattern_match" => ob(real_pattern_match(&g("pattern"), &g("pkg"))),
        "pattern_match_seq" => match Pattern::new(&g("pattern")) {
            Ok(pat) => {
                let names = g("names");
                let seq: Vec<&str> = names.split('\u{1f}').collect();
                let dw = Dewey::new(&g("pattern")).ok();
                let mut last = (false, None);
                for n in &seq { last = (pat.matches(n), dw.as_ref().map(|d| d.matches(n))); }
                // the disagreeing answer of the last call: the Pattern's, or the Dewey's when the Pattern's is the expected one
                if last.0.to_string() != expected { last.0.to_string() } else { last.1.unwrap_or(last.0).to_string() }
            }
            Err(_) => "compile-error".into(),
        },
        "pattern_compile" => Pattern::new(&g("pattern")).is_ok().to_string(),
        "dewey_match" => ob(Dewey::new(&g("pattern")).ok().map(|d| d.matches(&g("pkg")))),
        "pattern_vs_dewey" => ob(real_pattern_match(&g("pattern"), &g("pkg"))),
        "best_match" => match Pattern::new(&g("pattern")) {
            Ok(p) => p.best_match(&g("a"), &g("b")).unwrap_or("<none>").to_string(),
            Err(_) => "compile-error".into(),
        },
        "best_reduce" => match Pattern::new(&g("pattern")) {
            Ok(pat) => {
                let list = [g("a"), g("b"), g("c"), g("d")];
                let red = |order: &[usize]| -> Option<String> {
                    let mut cur: Option<String> = None;
                    for &i in order {
                        let x = &list[i];
                        cur = match cur { None => if pat.matches(x) { Some(x.clone()) } else { None }, Some(w) => Some(pat.best_match(&w, x).map(|s| s.to_string()).unwrap_or(w)) };
                    }
                    cur
                };
                let (r1, r2, r3) = (red(&[0, 1, 2, 3]), red(&[3, 2, 1, 0]), red(&[2, 0, 3, 1]));
                if r1 == r2 && r1 == r3 { format!("{:?}", r1) } else { format!("{:?} / {:?} / {:?}", r1, r2, r3) }
            }
            Err(_) => "compile-error".into(),
        },
        "pkgname" => {
            let pn = PkgName::new(&g("name"));
            format!("{}|{}", pn.pkgbase(), pn.pkgversion())
        }
        "pkgrevision" => format!("{:?}", PkgName::new(&g("name")).pkgrevision()),
        "summary_pkgname" => { let mut sm = Summary::new(); sm.set_pkgname(&g("name")); format!("{:?}", (sm.pkgbase(), sm.pkgversion())) }
        "summary_parse" => format!("{:?}", real_summary(&g("text"))),
        "summary_api_print" => {
            // replay: the canonical text's values set through the API in declaration order, multi-line variables by pushes
            match summary_parse(&g("text")) {
                Ok(e) => { let mut api = Summary::new(); for (k, v) in &e { more::api_apply(&mut api, k, v, 3); } format!("{}", api) }
                Err(_) => "oracle-parse-error".into(),
            }
        }
        "summary_getters" => match Summary::from_str(&g("text")) { Ok(s) => more::summary_getters(&s), Err(_) => "parse-error".into() },
        "summary_api_completed" => match summary_parse(&g("text")) {
            Ok(e) => summary_completed_after(&e, &g("script")).to_string(),
            Err(_) => "oracle-parse-error".into(),
        },
        "summary_api_steps" => match summary_parse(&g("text")) {
            // replay: the script up to the failing print; the answer is what that print shows
            Ok(e) => { let sc = g("script"); match summary_script(&e, &sc) { Some((_, _, got)) => got, None => expected.clone() } }
            Err(_) => "oracle-parse-error".into(),
        },
        "summary_roundtrip" | "summary_print" => match Summary::from_str(&g("text")) { Ok(s) => format!("{}", s), Err(_) => "parse-error".into() },
        "stream_chunks" | "stream_print" => {
            let bytes = unhexb(&g("hexstream"));
            let cuts: Vec<usize> = g("cuts").trim_matches(|c| c == '[' || c == ']').split(',').filter_map(|x| x.trim().parse().ok()).collect();
            let mut chunks: Vec<&[u8]> = vec![];
            let mut prev = 0;
            for &c in &cuts { if c > prev && c <= bytes.len() { chunks.push(&bytes[prev..c]); prev = c; } }
            chunks.push(&bytes[prev..]);
            format!("{:?}", stream_run(&chunks))
        }
        "distinfo_parse" | "distinfo_api_roundtrip" => format!("{:?}", real_dinfo(&Distinfo::from_bytes(&unhexb(&g("hextext"))))),
        "distinfo_entries_written" => { let p = Distinfo::from_bytes(&unhexb(&g("hextext"))); hex(&p.distfiles().iter().chain(p.patchfiles().iter()).flat_map(|e| e.as_bytes()).collect::<Vec<u8>>()) }
        "distinfo_lookup" => lookup_report(&Distinfo::from_bytes(&unhexb(&g("hextext")))),
        "distinfo_roundtrip" => hex(&Distinfo::from_bytes(&unhexb(&g("hextext"))).as_bytes()),
        "plist_entry" => format!("{:?}", PlistEntry::from_bytes(&unhexb(&g("hexline"))).ok()),
        "plist" => format!("{:?}", Plist::from_bytes(&unhexb(&g("hextext"))).ok().map(|p| format!("{:?}", p))),
        "plist_views" => match Plist::from_bytes(&unhexb(&g("hextext"))) {
            Ok(p) => real_plist_views(&p),
            Err(_) => "parse-error".into(),
        },
        "digest" => more::real_digest(&g("entry"), &g("algo"), &unhexb(&g("hexdata")), &g("sched")),
        "digest_name" => pkgsrc::digest::Digest::from_str(&g("name")).map(|d| d.to_string()).unwrap_or_else(|_| "unsupported".into()),
        "pkgpath" => more::real_pkgpath(&g("path")),
        "depend" => more::real_depend(&g("depend")),
        "meta_getters" => more::meta_dump(g("entry").parse().unwrap_or(0), &g("text")),
        "meta_table" => more::real_meta_table(),
        "meta_valid_consistency" => more::valid_consistency(g("mask").parse().unwrap_or(0)),
        "meta_is_valid" => more::real_is_valid(g("mask").parse().unwrap_or(0)).to_string(),
        "pkgdb_tree" => {
            let root = std::env::temp_dir().join(format!("verif-replay-w-{}", std::process::id()));
            let _ = std::fs::remove_dir_all(&root);
            std::fs::create_dir_all(&root).unwrap();
            more::build_tree(&root, &g("spec"));
            let a = more::real_tree(&root);
            let _ = std::fs::remove_dir_all(&root);
            a
        }
        "scanindex" => format!("{:?}", more::scan_real(&unhexb(&g("hextext")), g("failat").parse().ok())),
        "no_panic" => more::replay_no_panic(&g("entry"), &unhexb(&g("hexinput"))),
        "verify_parsed_patch" => "re-run the search to reproduce (needs the scratch file)".into(),
        "find_entry_sequence" => "sequence-dependent (re-run the search to reproduce)".into(),
        "order_law" => {
            // re-evaluate the law on the real code
            let mut r = Rng::new(1);
            let _ = &mut r;
            let (a, b, c) = (g("a"), g("b"), g("c"));
            let le = dm("<=", &a, &b);
            let detail = format!(
                "A<B={:?} A>B={:?} A<=B={:?} A>=B={:?} B>A={:?} B>=A={:?} B<=C={:?} A<=C={:?}",
                dm("<", &a, &b), dm(">", &a, &b), le, dm(">=", &a, &b), dm(">", &b, &a), dm(">=", &b, &a), dm("<=", &b, &c), dm("<=", &a, &c)
            );
            println!("law {} on a={:?} b={:?} c={:?}: {}", g("law"), a, b, c, detail);
            detail
        }
        _ => {
            println!("unknown witness kind {}", kind);
            return 2;
        }
    };
    println!("witness {}: expected {:?} actual {:?}", kind, expected, actual);
    if kind == "order_law" {
        return 1;
    }
    if actual == expected {
        println!("REPLAY: the real code now AGREES with the expected verdict");
        0
    } else {
        println!("REPLAY: the real code DISAGREES with the expected verdict");
        1
    }
}

fn main() {
    let args: Vec<String> = std::env::args().collect();
    if args.len() < 2 {
        eprintln!("usage: verif-replay search <PROP> <seed> | witness <kind> k=hex.. | bounded <PROP>");
        std::process::exit(2);
    }
    match args[1].as_str() {
        "search" => {
            let pid = args[2].as_str();
            let seed: u64 = args.get(3).and_then(|s| s.parse().ok()).unwrap_or(0);
            let strict = args.iter().any(|a| a == "--strict-letters");
            let la = !strict;
            let mut r = Rng::new(seed.wrapping_add(0x5EED));
            let iters: usize = std::env::var("VERIF_SEARCH_ITERS").ok().and_then(|s| s.parse().ok()).unwrap_or(20000);
            let ok = match pid {
                "C01" => search_c01(&mut r, la, iters),
                "C02" => search_c02(&mut r, la, iters),
                "C03" => search_c03(&mut r, iters),
                "C04" => search_c04(&mut r, la, iters),
                "C05" => search_c05(&mut r, la, iters),
                "C06" => search_c06(&mut r, la, iters),
                "C18" => search_c18(&mut r, la, iters),
                "C14" => search_c14(&mut r, iters),
                "C10" => search_c10(&mut r, iters),
                "C11" => search_c11(&mut r, iters),
                "C12" => search_c12(&mut r, iters),
                "C07" => search_c07(&mut r, iters),
                "C08" => search_c08(&mut r, iters),
                "C09" => search_c09(&mut r, iters),
                "C15" => search_c15(&mut r, iters),
                "C13" => more::search_c13(&mut r, iters) && more::hex2_table_ok(),
                "C16" => more::search_c16(&mut r, iters),
                "C17" => more::search_c17(&mut r, iters),
                "C19" => more::search_c19(&mut r, iters),
                "C20" => more::search_c20(&mut r, iters),
                _ => {
                    println!("no searcher for {}", pid);
                    true
                }
            };
            println!("SEARCH {} seed={} iters={} {}", pid, seed, iters, if ok { "no-disagreement" } else { "disagreement-found" });
        }
        "digests" => more::dump_digests(args.get(2).and_then(|s| s.parse().ok()).unwrap_or(0), args.get(3).and_then(|s| s.parse().ok()).unwrap_or(600)),
        "witness" => std::process::exit(run_witness(&args[2..])),
        "bounded" => {
            let pid = args[2].as_str();
            if pid == "C04" {
                let n: usize = args.get(3).and_then(|s| s.parse().ok()).unwrap_or(7);
                let (pats, evals, ok) = bounded_c04(n);
                println!("BOUNDED C04 maxlen={} patterns={} evaluations={} {}", n, pats, evals, if ok { "all-agree" } else { "DISAGREE" });
                std::process::exit(if ok { 0 } else { 1 });
            }
        }
        _ => std::process::exit(2),
    }
}
