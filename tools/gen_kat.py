#!/usr/bin/env python3
"""Regenerates replay/src/kat.rs (known-answer digests from python hashlib)."""
import hashlib, os
algs=[("BLAKE2s","blake2s"),("MD5","md5"),("RMD160","ripemd160"),("SHA1","sha1"),("SHA256","sha256"),("SHA512","sha512")]
lens=[0,1,3,55,56,57,63,64,65,111,112,119,120,127,128,129,1000,4096,5000]
out="// Known-answer vectors generated ONCE with python3 hashlib (OpenSSL; an implementation independent of RustCrypto):\n// input of length n = bytes (i*7+3) mod 256 for i in 0..n.  Regenerate: see tools/gen_kat.py\npub const KAT: &[(&str, usize, &str)] = &[\n"
for name,h in algs:
    for n in lens:
        data=bytes((i*7+3)%256 for i in range(n))
        out+='    ("%s", %d, "%s"),\n'%(name,n,hashlib.new(h,data).hexdigest())
out+="];\n"
open(os.path.join(os.path.dirname(os.path.dirname(os.path.abspath(__file__))),"replay/src/kat.rs"),"w").write(out)
