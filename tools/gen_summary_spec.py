#!/usr/bin/env python3
"""Generates the table-driven part of specs/summary.rs (23 set_*, 6 push_*, 25 getters) from /repo/src/summary.rs.
The output is committed; at check time the real bodies are re-extracted from /repo and only the contracts below are used."""
import re, sys
src = open('/repo/src/summary.rs').read()
VARS = ["BuildDate","Categories","Comment","Conflicts","Depends","Description","FileCksum","FileName","FileSize","Homepage","License",
        "MachineArch","Opsys","OsVersion","PkgOptions","Pkgname","Pkgpath","PkgtoolsVersion","PrevPkgpath","Provides","Requires","SizePkg","Supersedes"]
KIND = {v: 0 for v in VARS}
for v in ["FileSize","SizePkg"]: KIND[v] = 1
for v in ["Conflicts","Depends","Description","Provides","Requires","Supersedes"]: KIND[v] = 2
out = []
def body_of(name):
    m = re.search(r'\n    pub fn %s\(' % re.escape(name), src)
    a = m.start() + 1
    b = src.index("\n    }\n", a) + len("\n    }\n")
    return src[a:b]
for m in re.finditer(r'\n    pub fn (set_\w+|push_\w+)\(', src):
    name = m.group(1)
    txt = body_of(name)
    var = re.search(r'SummaryVariable::(\w+)', txt).group(1)
    sig = re.search(r'pub fn \w+\(&mut self, (\w+): ([^)]+)\)', txt)
    arg, ty = sig.group(1), sig.group(2)
    if name.startswith("set_"):
        if KIND[var] == 0: newv = "VV::S(%s@)" % arg
        elif KIND[var] == 1: newv = "VV::I(%s as int)" % arg
        else: newv = "VV::A(strs(%s@))" % arg
        ens = "final(self).view() == old(self).view().insert(SummaryVariable::%s, %s)" % (var, newv)
    else:
        ens = "final(self).view() == old(self).view().insert(SummaryVariable::%s, VV::A(list_of(old(self).view(), SummaryVariable::%s).push(%s@)))" % (var, var, arg)
    pre = "        proof { lemma_push_facts(); }\n" if name.startswith("push_") else ""
    txt2 = txt.replace(") {\n", ")\n        requires old(self).wf()\n        ensures final(self).wf(), %s\n    {\n%s" % (ens, pre), 1)
    out.append("//@ extract src/summary.rs : impl Summary fn %s\n%s//@ end\n" % (name, txt2))
GETTERS = [(re.sub(r'(?<!^)(?=[A-Z])', '_', v).lower(), v) for v in VARS]
for g, v in GETTERS:
    txt = body_of(g)
    if KIND[v] == 0:
        ret, ens = "Option<&str>", "(match r { Some(s) => self.view().contains_key(SummaryVariable::%s) && self.view()[SummaryVariable::%s] == VV::S(s@), None => !self.view().contains_key(SummaryVariable::%s) })" % (v, v, v)
    elif KIND[v] == 1:
        ret, ens = "Option<i64>", "(match r { Some(i) => self.view().contains_key(SummaryVariable::%s) && self.view()[SummaryVariable::%s] == VV::I(i as int), None => !self.view().contains_key(SummaryVariable::%s) })" % (v, v, v)
    else:
        ret, ens = "Option<&[String]>", "(match r { Some(a) => self.view().contains_key(SummaryVariable::%s) && self.view()[SummaryVariable::%s] == VV::A(strs(a@)), None => !self.view().contains_key(SummaryVariable::%s) })" % (v, v, v)
    txt2 = txt.replace("-> %s {" % ret, "-> (r: %s)\n        requires self.wf()\n        ensures %s\n    {" % (ret, ens), 1)
    assert txt2 != txt, g
    out.append("//@ extract src/summary.rs : impl Summary fn %s\n%s//@ end\n" % (g, txt2))
print("\n".join(out))
